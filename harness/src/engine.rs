//! Exploration engines shared by all property checks.
//!
//! E1: exhaustive string-space enumeration (`StrSpace`), indexable so that blocks can be handed
//!     to threads or to isolated worker processes.
//! E2: deviation-bounded choice-sequence exploration (`Ch`, `explore`).
//! Parallel block runner with a wall-clock cap (`par_blocks`).

use crate::report::Acc;
use std::sync::atomic::{AtomicBool, AtomicU64, Ordering};
use std::time::{Duration, Instant};

// ---------------------------------------------------------------------------------------------
// E1: string spaces
// ---------------------------------------------------------------------------------------------

/// All sequences of at most `maxlen` symbols (symbols may be multi-character chunks), in
/// length-then-lexicographic order. Index 0 is the empty string.
#[derive(Clone, Debug)]
pub struct StrSpace {
    pub name: String,
    pub symbols: Vec<String>,
    pub maxlen: usize,
    /// prefix prepended to every string (usually empty)
    pub prefix: String,
}

impl StrSpace {
    pub fn chars(name: &str, alphabet: &str, maxlen: usize) -> Self {
        StrSpace { name: name.into(), symbols: alphabet.chars().map(|c| c.to_string()).collect(), maxlen, prefix: String::new() }
    }
    pub fn chunks(name: &str, symbols: Vec<String>, maxlen: usize) -> Self {
        StrSpace { name: name.into(), symbols, maxlen, prefix: String::new() }
    }
    pub fn len(&self) -> u64 {
        let k = self.symbols.len() as u64;
        let mut total = 0u64;
        let mut p = 1u64;
        for _ in 0..=self.maxlen {
            total += p;
            p = p.saturating_mul(k);
        }
        total
    }
    /// digits (symbol indices) of the string with global index `idx`
    pub fn decode(&self, mut idx: u64) -> Vec<usize> {
        let k = self.symbols.len() as u64;
        let mut p = 1u64;
        let mut l = 0usize;
        loop {
            if idx < p {
                break;
            }
            idx -= p;
            p *= k;
            l += 1;
        }
        let mut d = vec![0usize; l];
        for i in (0..l).rev() {
            d[i] = (idx % k) as usize;
            idx /= k;
        }
        d
    }
    pub fn build(&self, digits: &[usize], out: &mut String) {
        out.clear();
        out.push_str(&self.prefix);
        for &d in digits {
            out.push_str(&self.symbols[d]);
        }
    }
    pub fn string_at(&self, idx: u64) -> String {
        let mut s = String::new();
        self.build(&self.decode(idx), &mut s);
        s
    }
    /// Calls `f(index, string)` for every index in `[from, to)`.
    pub fn for_range<F: FnMut(u64, &str)>(&self, from: u64, to: u64, mut f: F) {
        if from >= to {
            return;
        }
        let k = self.symbols.len();
        let mut digits = self.decode(from);
        let mut s = String::new();
        let mut idx = from;
        loop {
            self.build(&digits, &mut s);
            f(idx, &s);
            idx += 1;
            if idx >= to {
                return;
            }
            // increment odometer
            let mut i = digits.len();
            loop {
                if i == 0 {
                    // overflow: next length
                    let l = digits.len() + 1;
                    digits = vec![0; l];
                    break;
                }
                i -= 1;
                digits[i] += 1;
                if digits[i] < k {
                    break;
                }
                digits[i] = 0;
            }
        }
    }
}

// ---------------------------------------------------------------------------------------------
// progress reporting for the supervising parent process (see supervise.rs)
// ---------------------------------------------------------------------------------------------

pub const SLOT: u64 = 32;
pub const NSLOTS: u64 = 256;
pub const CASE_AREA: u64 = SLOT * NSLOTS;
pub const CASE_MAX: usize = 1 << 16;
/// after the case area: the OS thread id of the thread that owns each slot (8 bytes per slot)
pub const TID_AREA: u64 = CASE_AREA + 16 + CASE_MAX as u64;

pub struct Iso {
    pub file: std::fs::File,
    /// bisect mode: run only (sweep, block), single-threaded, announcing every case
    pub only: Option<(u64, u64)>,
}
static ISO: std::sync::OnceLock<Option<Iso>> = std::sync::OnceLock::new();
static SWEEP: AtomicU64 = AtomicU64::new(0);

pub fn iso() -> Option<&'static Iso> {
    ISO.get_or_init(|| {
        let path = std::env::var("VP_PROGRESS").ok()?;
        let file = std::fs::OpenOptions::new().read(true).write(true).open(path).ok()?;
        let only = std::env::var("VP_ONLY").ok().and_then(|v| {
            let (a, b) = v.split_once(':')?;
            Some((a.parse().ok()?, b.parse().ok()?))
        });
        Some(Iso { file, only })
    })
    .as_ref()
}
/// Records which OS thread owns slot `t`, so that the parent can ask how much CPU time that very
/// thread has used (a block that does not move only counts as stalled while its thread is burning CPU).
fn tid_write(iso: &Iso, t: u64) {
    use std::os::unix::fs::FileExt;
    let tid: u64 = std::fs::read_link("/proc/thread-self").ok().and_then(|p| p.file_name().and_then(|n| n.to_str().and_then(|x| x.parse().ok()))).unwrap_or(0);
    let _ = iso.file.write_at(&tid.to_le_bytes(), TID_AREA + (t % NSLOTS) * 8);
}
fn slot_write(iso: &Iso, t: u64, sweep: u64, block: u64, running: u64, beat: u64) {
    use std::os::unix::fs::FileExt;
    let mut b = [0u8; 32];
    b[0..8].copy_from_slice(&sweep.to_le_bytes());
    b[8..16].copy_from_slice(&block.to_le_bytes());
    b[16..24].copy_from_slice(&running.to_le_bytes());
    b[24..32].copy_from_slice(&beat.to_le_bytes());
    let _ = iso.file.write_at(&b, (t % NSLOTS) * SLOT);
}
thread_local! {
    /// (slot, sweep, block, beat, calls) of the block this thread is running
    static CUR: std::cell::Cell<(u64, u64, u64, u64, u64)> = const { std::cell::Cell::new((u64::MAX, 0, 0, 0, 0)) };
}
/// Called from inner loops: every 128 calls the thread's progress slot is refreshed, so that the
/// supervising parent can tell a long block from a stalled one.
#[inline]
pub fn heartbeat() {
    CUR.with(|c| {
        let (slot, sweep, block, beat, calls) = c.get();
        if slot == u64::MAX {
            return;
        }
        if calls % 128 == 127 {
            if let Some(iso) = iso() {
                slot_write(iso, slot, sweep, block, 1, beat + 1);
            }
            c.set((slot, sweep, block, beat + 1, calls + 1));
        } else {
            c.set((slot, sweep, block, beat, calls + 1));
        }
    });
}
/// bisect mode: announce the case about to run (index + text)
pub fn announce_case(idx: u64, text: &str) {
    if let Some(iso) = iso() {
        if iso.only.is_some() {
            use std::os::unix::fs::FileExt;
            let bytes = text.as_bytes();
            let n = bytes.len().min(CASE_MAX);
            let mut b = Vec::with_capacity(16 + n);
            b.extend_from_slice(&idx.to_le_bytes());
            b.extend_from_slice(&(n as u64).to_le_bytes());
            b.extend_from_slice(&bytes[..n]);
            let _ = iso.file.write_at(&b, CASE_AREA);
        }
    }
}

// ---------------------------------------------------------------------------------------------
// parallel block runner
// ---------------------------------------------------------------------------------------------

pub struct Budget {
    pub deadline: Instant,
    pub capped: AtomicBool,
}
impl Budget {
    pub fn new(secs: u64) -> Self {
        Budget { deadline: Instant::now() + Duration::from_secs(secs), capped: AtomicBool::new(false) }
    }
    pub fn expired(&self) -> bool {
        if Instant::now() >= self.deadline {
            self.capped.store(true, Ordering::Relaxed);
            true
        } else {
            false
        }
    }
    pub fn was_capped(&self) -> bool {
        self.capped.load(Ordering::Relaxed)
    }
}

pub fn threads() -> usize {
    std::env::var("VERIF_THREADS").ok().and_then(|s| s.parse().ok()).unwrap_or_else(|| std::thread::available_parallelism().map(|n| n.get()).unwrap_or(4))
}

/// Runs `f(block, acc)` for every block in `0..nblocks` on all cores; returns the merged
/// accumulator and the number of blocks completed (== nblocks unless the budget expired).
pub fn par_blocks<F>(nblocks: u64, budget: &Budget, f: F) -> (Acc, u64)
where
    F: Fn(u64, &mut Acc) + Sync,
{
    let sweep = SWEEP.fetch_add(1, Ordering::SeqCst);
    if let Some(iso) = iso() {
        if let Some((s, b)) = iso.only {
            // bisect mode: only the requested block of the requested sweep, on this thread
            let mut acc = Acc::default();
            if s == sweep && b < nblocks {
                slot_write(iso, 0, sweep, b, 1, 1);
                // a block of a block-wise scope is one case (sweep_strings announces its strings itself)
                announce_case(b, &format!("(block {b} of block-wise scope #{sweep})"));
                f(b, &mut acc);
                slot_write(iso, 0, sweep, b, 0, 2);
            }
            return (acc, nblocks);
        }
    }
    let next = AtomicU64::new(0);
    let done = AtomicU64::new(0);
    let nthreads = threads().min(nblocks.max(1) as usize).max(1);
    let tid = AtomicU64::new(0);
    let mut total = Acc::default();
    std::thread::scope(|sc| {
        let mut hs = vec![];
        for _ in 0..nthreads {
            hs.push(sc.spawn(|| {
                let mut acc = Acc::default();
                let t = tid.fetch_add(1, Ordering::Relaxed);
                if let Some(iso) = iso() {
                    tid_write(iso, t);
                }
                let mut beat = 0u64;
                loop {
                    if budget.expired() {
                        break;
                    }
                    let b = next.fetch_add(1, Ordering::Relaxed);
                    if b >= nblocks {
                        break;
                    }
                    if let Some(iso) = iso() {
                        beat += 1_000_000;
                        slot_write(iso, t, sweep, b, 1, beat);
                        CUR.with(|c| c.set((t, sweep, b, beat, 0)));
                    }
                    f(b, &mut acc);
                    done.fetch_add(1, Ordering::Relaxed);
                }
                if let Some(iso) = iso() {
                    CUR.with(|c| c.set((u64::MAX, 0, 0, 0, 0)));
                    slot_write(iso, t, sweep, 0, 0, beat + 1);
                }
                acc
            }));
        }
        for h in hs {
            match h.join() {
                Ok(a) => total.merge(a),
                Err(_) => total.machinery_errors.push("worker thread panicked outside catch_unwind".into()),
            }
        }
    });
    (total, done.load(Ordering::Relaxed))
}

pub const BLOCK: u64 = 8192;

/// Sweeps a whole string space in parallel. Returns (acc, completed?).
pub fn sweep_strings<F>(space: &StrSpace, budget: &Budget, f: F) -> (Acc, bool)
where
    F: Fn(&str, &mut Acc) + Sync,
{
    let n = space.len();
    let nblocks = (n + BLOCK - 1) / BLOCK;
    let (acc, done) = par_blocks(nblocks, budget, |b, acc| {
        let announcing = iso().map_or(false, |i| i.only.is_some());
        space.for_range(b * BLOCK, ((b + 1) * BLOCK).min(n), |i, s| {
            if announcing {
                announce_case(i, s);
            }
            heartbeat();
            f(s, acc)
        });
    });
    (acc, done == nblocks)
}

// ---------------------------------------------------------------------------------------------
// E2: choice sequences with a deviation bound
// ---------------------------------------------------------------------------------------------

/// Choice source: replays `prefix`, then answers 0 (the default) at every later point.
pub struct Ch {
    prefix: Vec<u32>,
    pos: usize,
    pub log: Vec<(u32, u32)>, // (arity, taken)
}
impl Ch {
    pub fn new(prefix: &[u32]) -> Self {
        Ch { prefix: prefix.to_vec(), pos: 0, log: Vec::with_capacity(32) }
    }
    #[inline]
    pub fn pick(&mut self, arity: usize) -> usize {
        debug_assert!(arity >= 1);
        let v = if self.pos < self.prefix.len() {
            let v = self.prefix[self.pos];
            assert!((v as usize) < arity, "choice replay divergence: recorded {} but arity {}", v, arity);
            v
        } else {
            0
        };
        self.pos += 1;
        self.log.push((arity as u32, v));
        v as usize
    }
    pub fn flag(&mut self) -> bool {
        self.pick(2) == 1
    }
    pub fn taken(&self) -> Vec<u32> {
        self.log.iter().map(|x| x.1).collect()
    }
    pub fn consumed_prefix(&self) -> bool {
        self.pos >= self.prefix.len()
    }
}

/// Deviation-bounded exploration. `run(ch)` executes the model once with the given choice source
/// (checking the oracle itself); `explore` enumerates every choice vector with at most `budget`
/// non-default choices. Returns (cases, transitions).
pub fn explore<F: FnMut(&mut Ch)>(budget: usize, run: &mut F) -> (u64, u64) {
    fn rec<F: FnMut(&mut Ch)>(prefix: Vec<u32>, budget: usize, run: &mut F, cases: &mut u64, trans: &mut u64) {
        let mut ch = Ch::new(&prefix);
        heartbeat();
        run(&mut ch);
        assert!(ch.consumed_prefix(), "choice replay divergence: model consumed fewer choices than the prefix holds");
        *cases += 1;
        if budget == 0 {
            return;
        }
        let log = ch.log;
        for i in prefix.len()..log.len() {
            for alt in 1..log[i].0 {
                let mut p: Vec<u32> = log[..i].iter().map(|x| x.1).collect();
                p.push(alt);
                *trans += 1;
                rec(p, budget - 1, run, cases, trans);
            }
        }
    }
    let mut cases = 0;
    let mut trans = 0;
    rec(vec![], budget, run, &mut cases, &mut trans);
    (cases, trans)
}
