//! E4 — process-isolated scenario grids.
//!
//! The parent enumerates a finite grid `0..len` and runs it in child processes
//! (`vp worker <prop> <grid> <from> <to>`), `batch` scenarios per child. A child announces every
//! scenario before it runs it (`@<i>`), so that a crash (abnormal exit) or a hang (no output for
//! `timeout`) is attributed to one scenario; that scenario is then re-run alone in a fresh child to
//! confirm the outcome (same outcome twice => verdict; a different outcome => machinery error).
//! Children also stream back violations / classes / samples they decide themselves.

use crate::report::{Acc, Violation};
use serde_json::Value;
use std::io::{BufRead, BufReader, Write};
use std::process::{Command, Stdio};
use std::sync::atomic::{AtomicU64, Ordering};
use std::sync::mpsc;
use std::sync::Mutex;
use std::time::Duration;

#[derive(Clone, Debug, PartialEq)]
pub enum Abnormal {
    Crash(String), // signal / exit description
    Hang,
}
impl Abnormal {
    pub fn name(&self) -> String {
        match self {
            Abnormal::Crash(s) => format!("crash({s})"),
            Abnormal::Hang => "hang".into(),
        }
    }
    pub fn kind(&self) -> &'static str {
        match self {
            Abnormal::Crash(_) => "crash",
            Abnormal::Hang => "hang",
        }
    }
}

/// Child side: announce scenario `i`.
pub fn announce(i: u64) {
    let out = std::io::stdout();
    let mut l = out.lock();
    let _ = writeln!(l, "@{i}");
    let _ = l.flush();
}
/// Child side: stream the accumulator back and say goodbye.
pub fn child_finish(acc: &Acc) {
    let out = std::io::stdout();
    let mut l = out.lock();
    for (_, (n, v)) in &acc.viols {
        let _ = writeln!(l, "V{} {}", n, serde_json::to_string(v).unwrap());
    }
    for c in &acc.classes {
        let _ = writeln!(l, "C{c}");
    }
    for s in &acc.samples {
        let _ = writeln!(l, "S{}", s);
    }
    for (k, n) in &acc.counters {
        let _ = writeln!(l, "K{n} {k}");
    }
    for (k, n) in &acc.maxima {
        let _ = writeln!(l, "M{n} {k}");
    }
    let _ = writeln!(l, "E{}", acc.evals);
    let _ = writeln!(l, ".");
    let _ = l.flush();
}

struct ChildOutcome {
    acc: Acc,
    /// Some((scenario, how)) if the child ended abnormally while running `scenario`
    abnormal: Option<(u64, Abnormal)>,
    protocol_error: Option<String>,
}

/// CPU seconds (user + system, all threads) the process has used so far; None if it is gone.
pub fn cpu_secs(pid: u32) -> Option<f64> {
    let st = std::fs::read_to_string(format!("/proc/{pid}/stat")).ok()?;
    // the command name (field 2) may contain spaces: count fields after the closing parenthesis
    let rest = &st[st.rfind(')')? + 1..];
    let f: Vec<&str> = rest.split_whitespace().collect();
    // rest[0] is field 3 (state); utime and stime are fields 14 and 15
    let ut: f64 = f.get(11)?.parse().ok()?;
    let stime: f64 = f.get(12)?.parse().ok()?;
    Some((ut + stime) / 100.0)
}

fn run_child(prop: &str, grid: &str, from: u64, to: u64, timeout: Duration) -> ChildOutcome {
    let exe = std::env::current_exe().expect("current_exe");
    let mut acc = Acc::default();
    let mut child = match Command::new(exe).args(["worker", prop, grid, &from.to_string(), &to.to_string()]).stdin(Stdio::null()).stdout(Stdio::piped()).stderr(Stdio::null()).spawn() {
        Ok(c) => c,
        Err(e) => return ChildOutcome { acc, abnormal: None, protocol_error: Some(format!("cannot spawn worker: {e}")) },
    };
    let stdout = child.stdout.take().unwrap();
    let (tx, rx) = mpsc::channel::<String>();
    let reader = std::thread::spawn(move || {
        let br = BufReader::new(stdout);
        for line in br.lines() {
            match line {
                Ok(l) => {
                    if tx.send(l).is_err() {
                        break;
                    }
                }
                Err(_) => break,
            }
        }
    });
    let mut current: Option<u64> = None;
    let mut finished = false;
    let mut abnormal = None;
    let mut protocol_error = None;
    // The watchdog counts CPU seconds of the worker since its last line, not wall time: on an
    // overloaded or thrashing machine a healthy worker can stand still for minutes.
    let pid = child.id();
    let mut quiet_since = std::time::Instant::now();
    let mut cpu_at_last_line = cpu_secs(pid).unwrap_or(0.0);
    loop {
        match rx.recv_timeout(timeout.min(Duration::from_secs(2))) {
            Ok(line) => {
                quiet_since = std::time::Instant::now();
                cpu_at_last_line = cpu_secs(pid).unwrap_or(cpu_at_last_line);
                let (tag, rest) = line.split_at(line.len().min(1));
                match tag {
                    "@" => current = rest.parse().ok(),
                    "V" => {
                        if let Some((n, js)) = rest.split_once(' ') {
                            match serde_json::from_str::<Violation>(js) {
                                Ok(v) => {
                                    let n: u64 = n.parse().unwrap_or(1);
                                    for _ in 0..n.min(1) {
                                        acc.violation(v.clone());
                                    }
                                    if n > 1 {
                                        if let Some(e) = acc.viols.get_mut(&v.key) {
                                            e.0 += n - 1;
                                        }
                                    }
                                }
                                Err(e) => protocol_error = Some(format!("bad violation line from worker: {e}")),
                            }
                        }
                    }
                    "C" => {
                        if let Ok(c) = rest.parse::<u64>() {
                            acc.classes.insert(c);
                        }
                    }
                    "S" => {
                        if let Ok(v) = serde_json::from_str::<Value>(rest) {
                            acc.sample(v);
                        }
                    }
                    "K" => {
                        if let Some((n, k)) = rest.split_once(' ') {
                            acc.count(k, n.parse().unwrap_or(0));
                        }
                    }
                    "M" => {
                        if let Some((n, k)) = rest.split_once(' ') {
                            acc.maximum(k, n.parse().unwrap_or(0));
                        }
                    }
                    "E" => acc.evals += rest.parse::<u64>().unwrap_or(0),
                    "." => finished = true,
                    _ => {}
                }
            }
            Err(mpsc::RecvTimeoutError::Timeout) => {
                let burned = cpu_secs(pid).map_or(0.0, |c| c - cpu_at_last_line);
                if burned < timeout.as_secs_f64() {
                    if quiet_since.elapsed() > timeout * 40 {
                        let _ = child.kill();
                        let _ = child.wait();
                        protocol_error = Some("worker was starved of CPU time (machine too busy): re-run".into());
                        break;
                    }
                    continue;
                }
                let _ = child.kill();
                let _ = child.wait();
                match current {
                    Some(i) => abnormal = Some((i, Abnormal::Hang)),
                    None => protocol_error = Some("worker produced no output before the watchdog expired".into()),
                }
                break;
            }
            Err(mpsc::RecvTimeoutError::Disconnected) => {
                // EOF: child exited
                let status = child.wait();
                if !finished {
                    let how = match status {
                        Ok(st) => {
                            use std::os::unix::process::ExitStatusExt;
                            if let Some(sig) = st.signal() {
                                format!("signal {sig}")
                            } else {
                                format!("exit {}", st.code().unwrap_or(-1))
                            }
                        }
                        Err(e) => format!("wait failed: {e}"),
                    };
                    match current {
                        Some(i) => abnormal = Some((i, Abnormal::Crash(how))),
                        None => protocol_error = Some(format!("worker died before announcing a scenario ({how})")),
                    }
                }
                break;
            }
        }
    }
    let _ = reader.join();
    ChildOutcome { acc, abnormal, protocol_error }
}

pub struct GridResult {
    pub acc: Acc,
    /// confirmed abnormal scenarios
    pub abnormal: Vec<(u64, Abnormal)>,
    pub completed: bool,
}

/// Runs the whole grid; confirmed crashes/hangs are returned (the caller classifies them).
pub fn run_grid(prop: &str, grid: &str, len: u64, batch: u64, timeout_s: u64, deadline: std::time::Instant) -> GridResult {
    run_grid_from(prop, grid, 0, len, batch, timeout_s, deadline)
}
pub fn run_grid_range(prop: &str, grid: &str, from: u64, to: u64, timeout_s: u64, deadline: std::time::Instant) -> GridResult {
    run_grid_from(prop, grid, from, to, 1, timeout_s, deadline)
}
/// C11's known findings are 22 crashing scenarios (each at up to three depths): the limit must sit above them.
const MAX_ABNORMAL: usize = 96;
/// A confirmed hang costs four watchdog periods of CPU time; eight of them are verdict enough.
const MAX_HANGS: usize = 8;
fn too_many(ab: &[(u64, Abnormal)]) -> bool {
    ab.len() >= MAX_ABNORMAL || ab.iter().filter(|x| x.1.kind() == "hang").count() >= MAX_HANGS
}

fn run_grid_from(prop: &str, grid: &str, start: u64, len: u64, batch: u64, timeout_s: u64, deadline: std::time::Instant) -> GridResult {
    let next = AtomicU64::new(start);
    let total = Mutex::new((Acc::default(), Vec::<(u64, Abnormal)>::new()));
    let incomplete = AtomicU64::new(0);
    let nthreads = crate::engine::threads().min(((len - start + batch - 1) / batch).max(1) as usize);
    std::thread::scope(|sc| {
        for _ in 0..nthreads {
            sc.spawn(|| loop {
                if std::time::Instant::now() >= deadline {
                    incomplete.store(1, Ordering::Relaxed);
                    break;
                }
                // every confirmed crash or hang costs a watchdog period twice over: a handful of them
                // is a verdict, the rest of the grid is left unexplored (and reported as such)
                if too_many(&total.lock().unwrap().1) {
                    incomplete.store(1, Ordering::Relaxed);
                    break;
                }
                let from = next.fetch_add(batch, Ordering::Relaxed);
                if from >= len {
                    break;
                }
                let to = (from + batch).min(len);
                let mut cur = from;
                while cur < to {
                    if std::time::Instant::now() >= deadline || too_many(&total.lock().unwrap().1) {
                        incomplete.store(1, Ordering::Relaxed);
                        break;
                    }
                    let out = run_child(prop, grid, cur, to, Duration::from_secs(timeout_s));
                    let mut t = total.lock().unwrap();
                    t.0.merge(out.acc);
                    if let Some(e) = out.protocol_error {
                        t.0.machinery_errors.push(format!("{grid}[{cur}..{to}]: {e}"));
                        break;
                    }
                    match out.abnormal {
                        None => break,
                        Some((i, how)) => {
                            drop(t);
                            // confirm by a single-scenario re-run with a longer watchdog
                            let again = run_child(prop, grid, i, i + 1, Duration::from_secs(timeout_s * 3));
                            let mut t = total.lock().unwrap();
                            let normal = again.abnormal.is_none();
                            match again.abnormal {
                                Some((j, how2)) if j == i && how2.kind() == how.kind() => t.1.push((i, how2)),
                                other => t.0.machinery_errors.push(format!("{grid}[{i}]: {} was not reproduced by a single-scenario re-run (second run: {:?})", how.name(), other.map(|x| x.1.name()))),
                            }
                            if normal {
                                t.0.merge(again.acc);
                            }
                            cur = i + 1;
                        }
                    }
                }
            });
        }
    });
    let (acc, abnormal) = total.into_inner().unwrap();
    GridResult { acc, abnormal, completed: incomplete.load(Ordering::Relaxed) == 0 }
}

/// Runs `f` on a thread with the given stack size and waits for it (child side).
pub fn on_stack<F: FnOnce() + Send + 'static>(bytes: usize, f: F) {
    let h = std::thread::Builder::new().stack_size(bytes).spawn(f).expect("spawn");
    let _ = h.join();
}
