mod engine;
mod isolate;
mod models;
mod props;
mod report;
mod scopes;
mod subject;
mod supervise;

use report::Tier;

fn usage() -> ! {
    eprintln!("usage: vp check <ID> --tier quick|thorough | vp replay <file> | vp list | vp selfcheck-suite");
    std::process::exit(2)
}

fn main() {
    let args: Vec<String> = std::env::args().collect();
    if args.len() < 2 {
        usage();
    }
    if std::env::var("VP_LOUD").is_err() {
        subject::quiet_panics();
    }
    match args[1].as_str() {
        "list" => {
            for (id, _, _) in props::table() {
                println!("{id}");
            }
        }
        "check" | "check-inner" => {
            let id = args.get(2).cloned().unwrap_or_else(|| usage());
            // an explicit --tier wins; VERIF_TIER is only the default
            let mut tier = std::env::var("VERIF_TIER").ok().and_then(|t| Tier::parse(&t)).unwrap_or(Tier::Quick);
            let mut i = 3;
            while i < args.len() {
                if args[i] == "--tier" {
                    tier = args.get(i + 1).and_then(|t| Tier::parse(t)).unwrap_or_else(|| usage());
                    i += 1;
                }
                i += 1;
            }
            let Some((_, f, _)) = props::table().into_iter().find(|x| x.0 == id) else {
                println!("MACHINERY-ERROR unknown property {id}");
                std::process::exit(2)
            };
            // C11 and C18 isolate every scenario themselves; the other checks run under a supervising parent
            if args[1] == "check" && id != "C11" && id != "C18" && std::env::var("VP_NO_SUPERVISE").is_err() {
                std::process::exit(supervise::supervise(&id, tier));
            }
            std::process::exit(f(tier));
        }
        "replay" => {
            let path = args.get(2).cloned().unwrap_or_else(|| usage());
            let txt = std::fs::read_to_string(&path).unwrap_or_else(|e| {
                eprintln!("cannot read {path}: {e}");
                std::process::exit(2)
            });
            let doc: serde_json::Value = serde_json::from_str(&txt).unwrap_or_else(|e| {
                eprintln!("cannot parse {path}: {e}");
                std::process::exit(2)
            });
            let id = doc["property"].as_str().unwrap_or("").to_string();
            let Some((_, _, r)) = props::table().into_iter().find(|x| x.0 == id) else {
                eprintln!("unknown property {id:?} in replay file");
                std::process::exit(2)
            };
            let run = || r(&doc["case"]).map(|acc| acc.viols.into_iter().map(|(k, (_, v))| (k, v.expected, v.observed)).collect::<Vec<_>>());
            let a = run();
            let b = run();
            if a != b {
                println!("MACHINERY-ERROR replay is not deterministic: {a:?} vs {b:?}");
                std::process::exit(2);
            }
            match a {
                Err(e) => {
                    println!("MACHINERY-ERROR {e}");
                    std::process::exit(2)
                }
                Ok(v) if v.is_empty() => {
                    println!("replay: property {id} holds on this case (no violation reproduced)");
                }
                Ok(v) => {
                    for (k, e, o) in &v {
                        println!("replay: VIOLATION property={id} key={k}\n  expected: {e}\n  observed: {o}");
                    }
                    std::process::exit(1);
                }
            }
        }
        "worker" => {
            let prop = args.get(2).cloned().unwrap_or_else(|| usage());
            let grid = args.get(3).cloned().unwrap_or_else(|| usage());
            let from: u64 = args.get(4).and_then(|x| x.parse().ok()).unwrap_or_else(|| usage());
            let to: u64 = args.get(5).and_then(|x| x.parse().ok()).unwrap_or_else(|| usage());
            props::worker(&prop, &grid, from, to);
        }
        "selfcheck-suite" => {
            let cases = scopes::load_suite().unwrap();
            println!("{} cases, {} fail", cases.len(), cases.iter().filter(|c| c.fail).count());
            // cross-check against the subject's own reading of the files (one-off sanity aid)
            use saphyr::LoadableYamlNode;
            let dir = scopes::repo_root().join("parser/tests/yaml-test-suite/src");
            let mut bad = 0;
            for c in &cases {
                let base = c.name.split('-').next().unwrap();
                let idx: usize = c.name.split('-').nth(1).map(|x| x.parse().unwrap()).unwrap_or(0);
                let txt = std::fs::read_to_string(dir.join(format!("{base}.yaml"))).unwrap();
                let docs = saphyr::Yaml::load_from_str(&txt).unwrap();
                let list = docs[0].as_vec().unwrap();
                let mut cur: Option<String> = None;
                let mut tree: Option<String> = None;
                for (i, e) in list.iter().enumerate() {
                    if let Some(y) = e.as_mapping_get("yaml") {
                        cur = y.as_str().map(|s| s.to_string());
                    }
                    if let Some(y) = e.as_mapping_get("tree") {
                        tree = y.as_str().map(|s| s.to_string());
                    }
                    if i == idx {
                        break;
                    }
                }
                let raw = |s: &str| {
                    let mut y = s.to_owned();
                    for (pat, rep) in [("␣", " "), ("»", "\t"), ("—", ""), ("←", "\r"), ("⇔", "\u{FEFF}"), ("↵", ""), ("∎\n", "")] {
                        y = y.replace(pat, rep);
                    }
                    y
                };
                if cur.as_deref().map(raw).as_deref() != Some(c.yaml.as_str()) || tree.as_deref().map(raw) != c.tree {
                    bad += 1;
                    println!("MISMATCH {}: ours {:?} theirs {:?}", c.name, c.yaml, cur);
                }
            }
            println!("mismatches: {bad}");
        }
        _ => usage(),
    }
}
