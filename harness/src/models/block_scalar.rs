//! Reference semantics of block scalars (YAML 1.2 §8.1) and a renderer of header + lines in a
//! parent context (C05). Written from the specification, not from saphyr's source.

/// One line of a block scalar, relative to the content indentation `n`.
#[derive(Clone, Copy, Debug, PartialEq, Eq, Hash)]
pub enum L {
    /// text line (indentation `n` removed); may start with a space/tab ("spaced" line)
    T(&'static str),
    /// completely empty line
    E,
    /// empty line that carries some spaces (at most `n`)
    Es,
    /// a line of `n + 1` spaces: a *text* line whose text is one space
    S,
    /// empty line that carries exactly `n` spaces (the full indentation and nothing else)
    En,
    /// `n - 1` spaces and a tab, nothing else: not an empty line (a tab is no indentation) and not
    /// content (too little indentation) - it ends the scalar and is itself an ignorable blank line.
    /// Only generated as the last line and after a text line.
    Tt,
}

pub const MENU: [L; 18] = [L::T("a"), L::T("b c"), L::T("c "), L::T("d\t"), L::T("...x"), L::T("---x"), L::T("..."), L::T("--- z"), L::T(" x"), L::T("\ty"), L::E, L::Es, L::T("- z"), L::T("k: v"), L::T("# n"), L::S, L::En, L::Tt];
pub const LONG_MENU: [L; 4] = [L::T("aaaaaaaaaaaaaaa"), L::T("aaaaaaaaaaaaaaaa"), L::T("aaaaaaaaaaaaaaaaa"), L::T("aaaaaaaaaaaaaaaaaaaaaaaaaaaaaaaaaaaaaaaaaaaaaaaaaaaaaaaaaaaaaaaaaaaaaaaaaaaaaaaaaaaaaaaaaaaaaaaaaaaaaaaaaaaaaaaaaaaaaaaaaaaaaaaaaaaaaaaaaa é")];

/// The text the scalar denotes. chomp: 0 strip, 1 clip, 2 keep.
pub fn denote(lines: &[L], folded: bool, chomp: u8) -> String {
    // a terminator line is not part of the scalar
    let lines = if lines.last() == Some(&L::Tt) { &lines[..lines.len() - 1] } else { lines };
    let ls: Vec<Option<String>> = lines
        .iter()
        .map(|l| match l {
            L::T(t) => Some(t.to_string()),
            L::S => Some(" ".to_string()),
            _ => None,
        })
        .collect();
    let last_text = ls.iter().rposition(|l| l.is_some());
    let mut out = String::new();
    match last_text {
        None => {
            if chomp == 2 {
                for _ in &ls {
                    out.push('\n');
                }
            }
            out
        }
        Some(lt) => {
            let mut prev: Option<&String> = None;
            let mut empties = 0usize;
            for l in &ls[..=lt] {
                match l {
                    None => empties += 1,
                    Some(t) => {
                        match prev {
                            None => {
                                for _ in 0..empties {
                                    out.push('\n');
                                }
                            }
                            Some(p) => {
                                let spaced = |s: &String| s.starts_with(' ') || s.starts_with('\t');
                                if !folded || spaced(p) || spaced(t) {
                                    out.push('\n');
                                    for _ in 0..empties {
                                        out.push('\n');
                                    }
                                } else if empties == 0 {
                                    out.push(' ');
                                } else {
                                    for _ in 0..empties {
                                        out.push('\n');
                                    }
                                }
                            }
                        }
                        out.push_str(t);
                        prev = Some(t);
                        empties = 0;
                    }
                }
            }
            let trailing = ls.len() - 1 - lt;
            match chomp {
                0 => {}
                1 => out.push('\n'),
                _ => {
                    out.push('\n');
                    for _ in 0..trailing {
                        out.push('\n');
                    }
                }
            }
            out
        }
    }
}

#[derive(Clone, Copy, Debug, PartialEq, Eq, Hash)]
pub struct Cfg {
    pub folded: bool,
    pub chomp: u8,
    /// 0 auto, 1 / 2 explicit indentation indicator
    pub ind: u8,
    /// parent context 0..=5 (+ wide contexts 6..=8 with parent indentation 14/15/16)
    pub ctx: u8,
    /// what follows the header on its line: 0 nothing, 1 ` # c`, 2 tab + `# c`, 3 a tab, 4 two spaces
    pub hdr_comment: u8,
    /// 0 final break, 1 no final break, 2 sibling follows, 3 "..." follows, 4 comment line + sibling
    pub eof: u8,
    /// write the chomping sign before the indentation digit
    pub sign_first: bool,
}

pub struct Rendered {
    pub text: String,
    pub expect: String,
    /// number of scalar events expected in the document besides the block scalar (siblings/keys)
    pub has_sibling: bool,
}

/// Renders the scalar; None = the combination is outside the model (declined or meaningless).
pub fn render(lines: &[L], c: &Cfg) -> Option<Rendered> {
    let wide = |k: usize| -> (String, isize) { (format!("k:\n{}- ", " ".repeat(k)), k as isize) };
    let (prefix, p): (String, isize) = match c.ctx {
        0 => (String::new(), -1),
        1 => ("--- ".into(), -1),
        2 => ("k: ".into(), 0),
        3 => ("- ".into(), 0),
        4 => ("- k: ".into(), 2),
        5 => ("k:\n  - ".into(), 2),
        6 => wide(14),
        7 => wide(15),
        8 => wide(16),
        // 9: document root whose content sits at column 0 (auto-detected indentation only)
        _ => (String::new(), -1),
    };
    if c.ctx == 9 && c.ind != 0 {
        return None;
    }
    // at column 0 a document marker is a document marker, not content
    if c.ctx == 9 && lines.iter().any(|l| matches!(l, L::T(t) if *t == "..." || t.starts_with("... ") || *t == "---" || t.starts_with("--- "))) {
        return None;
    }
    // An explicit indentation indicator at document level: the statement says "the content
    // indentation is the explicit indicator", i.e. N columns (the reading of libyaml and of the
    // pinned tree; by the letter of the specification the root's parent level is -1 and the content
    // would sit at N-1).
    let p_explicit: isize = p.max(0);
    if c.sign_first && (c.ind == 0 || c.chomp == 1) {
        return None; // same text as the other order
    }
    let n: usize = if c.ind != 0 {
        (p_explicit + c.ind as isize) as usize
    } else if c.ctx == 9 {
        0
    } else {
        (p + 1).max(0) as usize + 1
    };
    let is_text = |l: &L| matches!(l, L::T(_) | L::S);
    let first_text = lines.iter().position(is_text);
    if let Some(tp) = lines.iter().position(|l| *l == L::Tt) {
        // only as the last line, with room for fewer spaces than the indentation, and not where it
        // would itself be the line that fixes an auto-detected indentation
        // (without any text line before it saphyr reports a wrongly indented line; the zone is thin and declined)
        if tp + 1 != lines.len() || n == 0 || first_text.is_none() {
            return None;
        }
    }
    if c.ind == 0 {
        // auto-detection: the first non-empty line fixes the indentation, so it must not start with
        // a space, and no earlier line may be longer than it
        match first_text {
            None => {
                if lines.iter().any(|l| matches!(l, L::S | L::En)) {
                    return None;
                }
            }
            Some(ft) => {
                match lines[ft] {
                    L::T(t) if t.starts_with(' ') => return None,
                    // declined: with content at column 0 a tab-led first line would have to fix the
                    // indentation at 0 columns; libyaml and saphyr refuse to auto-detect on a tab
                    L::T(t) if t.starts_with('\t') && c.ctx == 9 => return None,
                    L::S => return None,
                    _ => {}
                }
            }
        }
    }
    let has_text = first_text.is_some();
    let mut s = String::new();
    s.push_str(&prefix);
    s.push(if c.folded { '>' } else { '|' });
    let ch = match c.chomp {
        0 => "-",
        1 => "",
        _ => "+",
    };
    if c.ind != 0 {
        if c.sign_first {
            s.push_str(ch);
            s.push_str(&c.ind.to_string());
        } else {
            s.push_str(&c.ind.to_string());
            s.push_str(ch);
        }
    } else {
        s.push_str(ch);
    }
    s.push_str(match c.hdr_comment {
        0 => "",
        1 => " # c",
        2 => "\t# c",
        3 => "\t",
        _ => "  ",
    });
    let nl = lines.len();
    if nl == 0 && c.eof == 1 {
        return Some(Rendered { text: s, expect: denote(lines, c.folded, c.chomp), has_sibling: false });
    }
    s.push('\n');
    for (i, l) in lines.iter().enumerate() {
        match l {
            L::T(t) => {
                for _ in 0..n {
                    s.push(' ');
                }
                s.push_str(t);
            }
            L::E => {}
            L::Es => {
                for _ in 0..n.min(1) {
                    s.push(' ');
                }
            }
            L::Tt => {
                for _ in 0..n - 1 {
                    s.push(' ');
                }
                s.push('\t');
            }
            L::En => {
                for _ in 0..n {
                    s.push(' ');
                }
            }
            L::S => {
                for _ in 0..n + 1 {
                    s.push(' ');
                }
            }
        }
        if i + 1 < nl || c.eof != 1 {
            s.push('\n');
        }
    }
    let sib = match c.ctx {
        2 => Some("j: x\n".to_string()),
        3 => Some("- y\n".to_string()),
        4 => Some("  j: x\n".to_string()),
        5 => Some("  - y\n".to_string()),
        6 => Some(format!("{}- y\n", " ".repeat(14))),
        7 => Some(format!("{}- y\n", " ".repeat(15))),
        8 => Some(format!("{}- y\n", " ".repeat(16))),
        _ => None,
    };
    let mut has_sibling = false;
    match c.eof {
        0 => {}
        1 => {
            if nl == 0 {
                return None;
            }
            if matches!(lines[nl - 1], L::E) {
                return None; // identical to a shorter list with a final break
            }
            // declined zone: keep + a final spaces-only line without a break - except where it is the
            // sole line of the scalar, which counts as an empty line (yaml-test-suite JEF9)
            if matches!(lines[nl - 1], L::Es | L::En) && c.chomp == 2 && !(nl == 1 && n >= 1) {
                return None;
            }
        }
        2 => {
            s.push_str(&sib?);
            has_sibling = true;
        }
        3 => {
            // (a content-less scalar at document level with spaces-only lines followed by a marker
            // was a declined zone while saphyr rejected it; since the F-C15a repair it is asserted)
            let _ = has_text;
            s.push_str("...\n");
        }
        _ => {
            s.push_str("# trailing comment\n");
            s.push_str(&sib?);
            has_sibling = true;
        }
    }
    Some(Rendered { text: s, expect: denote(lines, c.folded, c.chomp), has_sibling })
}
