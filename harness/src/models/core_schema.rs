//! Hand-written matcher for the YAML 1.2 core schema literals (C08, C09, C13).
//! Written from the spec's regular expressions (10.3.2 Tag Resolution), not from saphyr's source.

#[derive(Debug, Clone, PartialEq)]
pub enum M {
    Null,
    Bool(bool),
    /// decimal / 0o / 0x integer; None when the value does not fit in i128
    Int(Option<i128>),
    Float(f64),
    Str,
}

fn all(s: &str, f: impl Fn(char) -> bool) -> bool {
    !s.is_empty() && s.chars().all(f)
}

/// Returns the core-schema reading of a plain scalar's text and whether recognising it is
/// *required* by the property (JSON literals, decimal/0x/0o integers, floats, .inf/.nan) or only
/// *permitted* (capitalised null/bool spellings, the empty text).
pub fn resolve(t: &str) -> (M, bool) {
    match t {
        "null" | "~" => return (M::Null, true),
        "Null" | "NULL" | "" => return (M::Null, false),
        "true" => return (M::Bool(true), true),
        "false" => return (M::Bool(false), true),
        "True" | "TRUE" => return (M::Bool(true), false),
        "False" | "FALSE" => return (M::Bool(false), false),
        _ => {}
    }
    if let Some(r) = t.strip_prefix("0o") {
        if all(r, |c| ('0'..='7').contains(&c)) {
            return (M::Int(i128::from_str_radix(r, 8).ok()), true);
        }
    }
    if let Some(r) = t.strip_prefix("0x") {
        if all(r, |c| c.is_ascii_hexdigit()) {
            return (M::Int(i128::from_str_radix(r, 16).ok()), true);
        }
    }
    let body = t.strip_prefix(['-', '+']).unwrap_or(t);
    if all(body, |c| c.is_ascii_digit()) {
        return (M::Int(t.parse::<i128>().ok()), true);
    }
    match body {
        ".inf" | ".Inf" | ".INF" => return (M::Float(if t.starts_with('-') { f64::NEG_INFINITY } else { f64::INFINITY }), true),
        _ => {}
    }
    match t {
        ".nan" | ".NaN" | ".NAN" => return (M::Float(f64::NAN), true),
        _ => {}
    }
    // [-+]? ( \. [0-9]+ | [0-9]+ ( \. [0-9]* )? ) ( [eE] [-+]? [0-9]+ )?
    let (mant, exp) = match body.find(['e', 'E']) {
        Some(i) => (&body[..i], Some(&body[i + 1..])),
        None => (body, None),
    };
    let mant_ok = if let Some(fr) = mant.strip_prefix('.') {
        all(fr, |c| c.is_ascii_digit())
    } else {
        let (ip, fp) = match mant.find('.') {
            Some(i) => (&mant[..i], Some(&mant[i + 1..])),
            None => (mant, None),
        };
        all(ip, |c| c.is_ascii_digit()) && fp.map_or(true, |f| f.chars().all(|c| c.is_ascii_digit()))
    };
    let exp_ok = exp.map_or(true, |e| {
        let e = e.strip_prefix(['-', '+']).unwrap_or(e);
        all(e, |c| c.is_ascii_digit())
    });
    if mant_ok && exp_ok {
        // std's decimal-to-double conversion is the trusted base for the value
        if let Ok(f) = t.parse::<f64>() {
            return (M::Float(f), true);
        }
    }
    (M::Str, true)
}

/// f64 value of an integer literal text (for the "may widen to float" allowance)
pub fn int_text_as_f64(t: &str) -> Option<f64> {
    if let Some(r) = t.strip_prefix("0x") {
        return u128::from_str_radix(r, 16).ok().map(|v| v as f64);
    }
    if let Some(r) = t.strip_prefix("0o") {
        return u128::from_str_radix(r, 8).ok().map(|v| v as f64);
    }
    t.parse::<f64>().ok()
}
