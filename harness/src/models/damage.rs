//! The ill-formedness operators of C06. Each takes a rendered (well-formed) stream and produces
//! texts that are ill-formed by the YAML 1.2 specification whatever surrounds the damaged site;
//! where the spec would make the result legal in some surroundings the site is not offered.

use crate::models::render::{LineKind, Mark, Rendering, N};

pub struct Damaged {
    pub op: u8,
    pub variant: &'static str,
    pub site: usize,
    pub text: String,
}

fn line_end(text: &str, start: usize) -> usize {
    text[start..].find('\n').map_or(text.len(), |i| start + i)
}
fn indent_of(text: &str, start: usize) -> usize {
    text[start..].bytes().take_while(|b| *b == b' ').count()
}

pub fn damage(r: &Rendering) -> Vec<Damaged> {
    let t = &r.text;
    let mut out = vec![];
    // 1. truncate inside a quoted scalar / a flow collection
    for m in &r.marks {
        match m {
            Mark::Quoted { start, end, .. } => {
                for cut in start + 1..*end {
                    out.push(Damaged { op: 1, variant: "truncate-in-quoted", site: cut, text: t[..cut].to_string() });
                }
            }
            Mark::Flow { start, end } => {
                for cut in start + 1..*end {
                    out.push(Damaged { op: 1, variant: "truncate-in-flow", site: cut, text: t[..cut].to_string() });
                }
            }
            _ => {}
        }
    }
    // 2. mismatched closing bracket (brackets only occur as flow indicators in rendered text)
    for (i, c) in t.char_indices() {
        let rep = match c {
            ']' => '}',
            '}' => ']',
            _ => continue,
        };
        let mut s = t.clone();
        s.replace_range(i..i + 1, &rep.to_string());
        out.push(Damaged { op: 2, variant: "mismatched-bracket", site: i, text: s });
    }
    // 3. tab as block indentation
    for (li, (start, kind, _)) in r.lines.iter().enumerate() {
        if *kind == LineKind::BlockEntry {
            let ind = indent_of(t, *start);
            // the blanks in front of the first entry of a *root* collection are not the
            // indentation of an open collection yet: not offered
            let root_first = r.levels[li].len() <= 1 && r.first_lines.contains(start);
            if ind > 0 && !root_first {
                let mut s = t.clone();
                s.replace_range(*start..*start + ind, "\t");
                out.push(Damaged { op: 3, variant: "tab-indentation", site: *start, text: s });
            }
            // a tab in front of a non-first entry, whatever its indentation (also none): the tab is not
            // indentation, and a block indicator or key cannot follow separation space at line start
            if !r.first_lines.contains(start) {
                let mut s = t.clone();
                s.insert(*start, '\t');
                out.push(Damaged { op: 3, variant: "tab-before-entry", site: *start, text: s });
            }
        }
    }
    // 4. a non-first block entry shifted strictly between its collection's level and the enclosing one
    for (li, (start, kind, _)) in r.lines.iter().enumerate() {
        if *kind != LineKind::BlockEntry || r.first_lines.contains(start) {
            continue;
        }
        let open = &r.levels[li];
        let Some(&m) = open.last() else { continue };
        let ind = indent_of(t, *start) as isize;
        if ind != m {
            continue; // compact entry sharing a line with its parent's indicator
        }
        let enclosing = open[..open.len() - 1].iter().copied().max().unwrap_or(-1);
        for c in (enclosing + 1).max(0)..m {
            if open.contains(&c) {
                continue;
            }
            let mut s = t.clone();
            s.replace_range(*start..*start + ind as usize, &" ".repeat(c as usize));
            out.push(Damaged { op: 4, variant: "entry-between-levels", site: *start, text: s });
            // the same with a tab (and the rest of the old width) after the shortened indentation:
            // the tab is no indentation, the entry still sits between two levels
            let mut s = t.clone();
            s.replace_range(*start..*start + ind as usize, &format!("{}\t", " ".repeat(c as usize)));
            out.push(Damaged { op: 4, variant: "entry-between-levels then tab", site: *start, text: s });
            if m - c > 1 {
                let mut s = t.clone();
                s.replace_range(*start..*start + ind as usize, &format!("{}\t{}", " ".repeat(c as usize), " ".repeat((m - c - 1) as usize)));
                out.push(Damaged { op: 4, variant: "entry-between-levels then tab and spaces", site: *start, text: s });
            }
        }
    }
    // 5. a flow continuation line that begins with an entry, moved to the enclosing block's column or left of it
    for (start, kind, parent) in &r.lines {
        if *kind != LineKind::FlowEntry || *parent < 0 {
            continue;
        }
        let ind = indent_of(t, *start);
        let le = line_end(t, *start);
        let body = &t[*start + ind..le];
        if body.is_empty() || body.starts_with('#') || body.starts_with(']') || body.starts_with('}') || body.starts_with(',') {
            continue;
        }
        for c in 0..=(*parent as usize) {
            if c >= ind {
                continue;
            }
            let mut s = t.clone();
            s.replace_range(*start..*start + ind, &" ".repeat(c));
            let what = match body.chars().next().unwrap() {
                '[' | '{' => "flow-dedent entry=collection",
                '"' | '\'' => "flow-dedent entry=quoted",
                '*' => "flow-dedent entry=alias",
                '&' | '!' => "flow-dedent entry=props",
                '?' => "flow-dedent entry=explicit-key",
                ':' => "flow-dedent entry=empty-key",
                _ => "flow-dedent entry=plain",
            };
            out.push(Damaged { op: 5, variant: what, site: *start, text: s });
        }
    }
    // 5b. a plain scalar inside a flow collection continued on a line at the enclosing block's column or
    // left of it (the continuation line of the scalar is a continuation line of the collection)
    for m in &r.marks {
        if let Mark::FlowPlain { end, parent, .. } = m {
            if *parent < 0 {
                continue;
            }
            for c in 0..=(*parent as usize) {
                let mut s = t.clone();
                s.insert_str(*end, &format!("\n{}x", " ".repeat(c)));
                out.push(Damaged { op: 5, variant: "flow-dedent plain-scalar-continuation", site: *end, text: s });
            }
        }
    }
    // 5c. the same for a quoted scalar inside a flow collection: a line break before its closing quote,
    // the continuation at the enclosing block's column or left of it
    for m in &r.marks {
        if let Mark::FlowQuoted { start, end, parent, .. } = m {
            if *parent < 0 || *end < *start + 2 {
                continue;
            }
            for c in 0..=(*parent as usize) {
                let mut s = t.clone();
                s.insert_str(*end - 1, &format!("\n{}x", " ".repeat(c)));
                out.push(Damaged { op: 5, variant: "flow-dedent quoted-scalar-continuation", site: *end, text: s });
            }
        }
    }
    // 6b. line break inside the quoted implicit key of a brace-less pair in a flow sequence (such a key
    // is confined to one line; the continuation is indented well inside the collection)
    for m in &r.marks {
        if let Mark::FlowQuoted { start, end, parent, seq_pair_key: true } = m {
            if *end < *start + 2 {
                continue;
            }
            let mut s = t.clone();
            s.insert_str(*end - 1, &format!("\n{}x", " ".repeat((*parent + 4).max(1) as usize)));
            out.push(Damaged { op: 6, variant: "multi-line-quoted-key flow-sequence-pair", site: *start, text: s });
        }
    }
    // 6. line break inside a quoted implicit key of a block mapping; 7. implicit key of 1025 characters
    for m in &r.marks {
        match m {
            Mark::Quoted { start, end, block_key: true, .. } => {
                let mut s = t.clone();
                s.insert_str(start + 1, "\n ");
                out.push(Damaged { op: 6, variant: "multiline-quoted-key", site: *start, text: s });
                let mut s = t.clone();
                s.replace_range(start + 1..end - 1, &"k".repeat(1025));
                out.push(Damaged { op: 7, variant: "long-quoted-key", site: *start, text: s });
            }
            Mark::PlainBlockKey { start, end } => {
                let mut s = t.clone();
                s.replace_range(*start..*end, &"k".repeat(1025));
                out.push(Damaged { op: 7, variant: "long-plain-key", site: *start, text: s });
            }
            _ => {}
        }
    }
    // 8. a second root node after a root collection / quoted root
    if let Some(last) = r.docs.last() {
        let root_ok = match &last.n {
            N::Seq(..) | N::Map(..) => true,
            N::Sc(_, st) => *st == 1 || *st == 2,
            _ => false,
        };
        if root_ok && !r.last_doc_has_end_marker && t.ends_with('\n') {
            for (v, extra) in [("second-root plain", "b\n"), ("second-root flow", "[b]\n"), ("second-root quoted", "\"b\"\n")] {
                out.push(Damaged { op: 8, variant: v, site: t.len(), text: format!("{t}{extra}") });
            }
        }
    }
    // 9. unknown / truncated escapes in double-quoted scalars
    for m in &r.marks {
        if let Mark::Quoted { start, end, style: 2, .. } = m {
            for (v, body) in [("escape unknown", "\\q"), ("escape x-short", "\\x4"), ("escape u-short", "\\u004"), ("escape U-short", "\\U0000004"), ("escape x-nonhex", "\\x4g"), ("escape U-out-of-range", "\\U00110000"), ("escape u-surrogate", "\\uD800")] {
                let mut s = t.clone();
                s.replace_range(start + 1..end - 1, body);
                out.push(Damaged { op: 9, variant: v, site: *start, text: s });
            }
        }
    }
    // 10. alias to an anchor defined nowhere before it; 11. undeclared tag handle
    let bytes = t.as_bytes();
    for i in 0..bytes.len() {
        if bytes[i] == b'*' && bytes.get(i + 1) == Some(&b'a') {
            let mut j = i + 2;
            while j < bytes.len() && bytes[j].is_ascii_digit() {
                j += 1;
            }
            let mut s = t.clone();
            s.replace_range(i..j, "*zz");
            out.push(Damaged { op: 10, variant: "undefined-alias", site: i, text: s });
        }
        if bytes[i] == b'!' && t[i..].starts_with("!t") && !t[i..].starts_with("!t!") && (i == 0 || bytes[i - 1] != b'!') {
            let mut s = t.clone();
            s.replace_range(i..i + 2, "!zz!x");
            out.push(Damaged { op: 11, variant: "undeclared-handle", site: i, text: s.clone() });
            // ... declared, but only for an EARLIER document (declarations end with their document,
            // whether it is ended by '...' or by the next '---')
            if !t.starts_with('%') {
                let body = if s.starts_with("---") { s.clone() } else { format!("---\n{s}") };
                out.push(Damaged { op: 11, variant: "handle-of-earlier-document after-docend", site: i, text: format!("%TAG !zz! tag:z,\n--- !zz!a x\n...\n{body}") });
                out.push(Damaged { op: 11, variant: "handle-of-earlier-document after-docstart", site: i, text: format!("%TAG !zz! tag:z,\n--- !zz!a x\n{body}") });
            }
        }
    }
    // 10b. an alias in a LATER document to an anchor of an earlier one (anchors end with their document)
    if let Some(i) = t.find("&a") {
        let name: String = t[i + 1..].chars().take_while(|c| c.is_ascii_alphanumeric()).collect();
        if !r.last_doc_has_end_marker && t.ends_with('\n') {
            out.push(Damaged { op: 10, variant: "alias-to-earlier-document explicit", site: t.len(), text: format!("{t}--- *{name}\n") });
            out.push(Damaged { op: 10, variant: "alias-to-earlier-document bare", site: t.len(), text: format!("{t}...\n*{name}\n") });
        }
    }
    // 12. repeated %YAML directive; 13. directives without '---'
    if let Some(rest) = t.strip_prefix("%YAML 1.2\n---") {
        out.push(Damaged { op: 12, variant: "duplicate-yaml-directive", site: 0, text: format!("%YAML 1.2\n{t}") });
        // ... with another version number, with a comment, and with another directive in between
        out.push(Damaged { op: 12, variant: "duplicate-yaml-directive other-version", site: 0, text: format!("%YAML 1.1\n{t}") });
        out.push(Damaged { op: 12, variant: "duplicate-yaml-directive commented", site: 0, text: format!("%YAML 1.2 # c\n{t}") });
        out.push(Damaged { op: 12, variant: "duplicate-yaml-directive separated", site: 0, text: format!("%YAML 1.2\n%TAG !e! tag:e,\n{t}") });
        out.push(Damaged { op: 12, variant: "duplicate-yaml-directive separated-by-reserved", site: 0, text: format!("%YAML 1.1\n%FOO bar\n{t}") });
        let rest = rest.strip_prefix(' ').or_else(|| rest.strip_prefix('\n')).unwrap_or(rest);
        if !rest.starts_with("---") && !rest.trim_start().is_empty()
        {
            out.push(Damaged { op: 13, variant: "directive-without-document-start", site: 0, text: format!("%YAML 1.2\n{rest}") });
        }
    }
    // 12b. two %TAG directives for the same handle in one document
    if t.starts_with("---") {
        out.push(Damaged { op: 12, variant: "duplicate-tag-directive", site: 0, text: format!("%TAG !e! tag:a,\n%TAG !e! tag:b,\n{t}") });
        // ... with one or two other handles declared in between, in both sort orders
        for (v, h) in [("b-a-b", ["!b!", "!a!", "!b!"]), ("a-b-a", ["!a!", "!b!", "!a!"]), ("secondary-primary-secondary", ["!!", "!", "!!"]), ("primary-named-primary", ["!", "!e!", "!"])] {
            out.push(Damaged { op: 12, variant: "duplicate-tag-directive separated", site: 0, text: format!("%TAG {} tag:x,\n%TAG {} tag:y,\n%TAG {} tag:z,\n{t}", h[0], h[1], h[2]) });
            let _ = v;
        }
        out.push(Damaged { op: 12, variant: "duplicate-tag-directive separated by two", site: 0, text: format!("%TAG !c! tag:x,\n%TAG !a! tag:y,\n%TAG !b! tag:y,\n%TAG !c! tag:z,\n{t}") });
        out.push(Damaged { op: 12, variant: "duplicate-tag-directive secondary", site: 0, text: format!("%TAG !! tag:a,\n%YAML 1.2\n%TAG !! tag:a,\n{t}") });
    }
    // 13b. a reserved directive in front of a document that has no '---'
    if !t.starts_with('%') && !t.starts_with("---") && !t.starts_with('#') && !t.trim_start().is_empty() {
        out.push(Damaged { op: 13, variant: "reserved-directive-without-document-start", site: 0, text: format!("%FOO bar\n{t}") });
    }
    // 14. content after a document-end marker on the same line
    let mut pos = 0;
    for line in t.split_inclusive('\n') {
        if line.starts_with("...") {
            let mut s = t.clone();
            s.insert_str(pos + 3, " b");
            out.push(Damaged { op: 14, variant: "content-after-document-end", site: pos, text: s });
        }
        pos += line.len();
    }
    out
}
