//! Independent loader model (C07, C19): folds an event sentence into canonical trees with an
//! explicit key/value state, alias substitution from *completed* anchored nodes and last-wins
//! duplicate keys. Scalars are resolved with the subject's own public resolver (C08 owns that).

use crate::subject::{canon_scalar, tag_of, Canon, Ev};
use saphyr::Scalar;
use std::collections::BTreeMap;

/// Folded tree: like `Canon`, but mappings remember which keys occurred more than once (their
/// position in iteration order is not constrained by the property).
#[derive(Clone, Debug, PartialEq)]
pub enum F {
    Leaf(Canon),
    Seq(Vec<F>),
    Map(Vec<(F, F)>, Vec<F>),
}

pub fn float_key_eq(a: u64, b: u64) -> bool {
    let (x, y) = (f64::from_bits(a), f64::from_bits(b));
    (x.is_nan() && y.is_nan()) || x == y
}

/// Key equality: structural, floats by value (NaN equals NaN, 0.0 equals -0.0).
pub fn canon_key_eq(a: &Canon, b: &Canon) -> bool {
    match (a, b) {
        (Canon::Float(x), Canon::Float(y)) => float_key_eq(*x, *y),
        (Canon::Seq(x), Canon::Seq(y)) => x.len() == y.len() && x.iter().zip(y).all(|(p, q)| canon_key_eq(p, q)),
        (Canon::Map(x), Canon::Map(y)) => x.len() == y.len() && x.iter().zip(y).all(|(p, q)| canon_key_eq(&p.0, &q.0) && canon_key_eq(&p.1, &q.1)),
        _ => a == b,
    }
}

impl F {
    pub fn to_canon(&self) -> Canon {
        match self {
            F::Leaf(c) => c.clone(),
            F::Seq(v) => Canon::Seq(v.iter().map(|x| x.to_canon()).collect()),
            F::Map(p, _) => Canon::Map(p.iter().map(|(k, v)| (k.to_canon(), v.to_canon())).collect()),
        }
    }
    /// Does `got` equal this tree, allowing duplicated keys to sit anywhere in iteration order?
    pub fn matches(&self, got: &Canon) -> bool {
        match (self, got) {
            (F::Leaf(c), g) => canon_key_eq(c, g),
            (F::Seq(v), Canon::Seq(g)) => v.len() == g.len() && v.iter().zip(g).all(|(a, b)| a.matches(b)),
            (F::Map(pairs, dups), Canon::Map(g)) => {
                if pairs.len() != g.len() {
                    return false;
                }
                let is_dup = |k: &Canon| dups.iter().any(|d| canon_key_eq(&d.to_canon(), k));
                // every model pair is present with the same value
                for (k, v) in pairs {
                    let kc = k.to_canon();
                    match g.iter().find(|(gk, _)| canon_key_eq(&kc, gk)) {
                        Some((gk, gv)) => {
                            if !k.matches(gk) || !v.matches(gv) {
                                return false;
                            }
                        }
                        None => return false,
                    }
                }
                // order of the non-duplicated keys is document order
                let a: Vec<Canon> = pairs.iter().map(|(k, _)| k.to_canon()).filter(|k| !is_dup(k)).collect();
                let b: Vec<&Canon> = g.iter().map(|(k, _)| k).filter(|k| !is_dup(k)).collect();
                a.len() == b.len() && a.iter().zip(b).all(|(x, y)| canon_key_eq(x, y))
            }
            _ => false,
        }
    }
}

pub fn resolve_scalar(v: &str, st: saphyr_parser::ScalarStyle, tag: &crate::subject::OTag) -> Canon {
    let t = tag_of(tag);
    match Scalar::parse_from_cow_and_metadata(v.into(), st, t.as_ref()) {
        Some(s) => canon_scalar(&s),
        None => Canon::Bad,
    }
}

enum Fr {
    Seq(Vec<F>, usize),
    Map(Vec<(F, F)>, Vec<F>, Option<F>, usize),
}

/// Folds the events of a stream into one tree per document.
pub fn fold<'a, I: Iterator<Item = &'a Ev>>(evs: I) -> Result<Vec<F>, String> {
    let mut docs = vec![];
    let mut stack: Vec<Fr> = vec![];
    let mut anchors: BTreeMap<usize, F> = BTreeMap::new();
    let mut root: Option<F> = None;
    fn put(stack: &mut Vec<Fr>, root: &mut Option<F>, anchors: &mut BTreeMap<usize, F>, node: F, aid: usize) {
        if aid > 0 {
            anchors.insert(aid, node.clone());
        }
        match stack.last_mut() {
            None => *root = Some(node),
            Some(Fr::Seq(v, _)) => v.push(node),
            Some(Fr::Map(pairs, dups, pending, _)) => match pending.take() {
                None => *pending = Some(node),
                Some(k) => {
                    let kc = k.to_canon();
                    if let Some(p) = pairs.iter().position(|(kk, _)| canon_key_eq(&kk.to_canon(), &kc)) {
                        pairs.remove(p);
                        if !dups.iter().any(|d| canon_key_eq(&d.to_canon(), &kc)) {
                            dups.push(k.clone());
                        }
                    }
                    pairs.push((k, node));
                }
            },
        }
    }
    for e in evs {
        match e {
            Ev::SS | Ev::SE | Ev::Nothing => {}
            Ev::DS(_) => root = None,
            Ev::DE => docs.push(root.take().ok_or("document without a node")?),
            Ev::SeqS(a, _) => stack.push(Fr::Seq(vec![], *a)),
            Ev::MapS(a, _) => stack.push(Fr::Map(vec![], vec![], None, *a)),
            Ev::SeqE => match stack.pop() {
                Some(Fr::Seq(v, a)) => put(&mut stack, &mut root, &mut anchors, F::Seq(v), a),
                _ => return Err("SequenceEnd without a sequence".into()),
            },
            Ev::MapE => match stack.pop() {
                Some(Fr::Map(p, d, None, a)) => put(&mut stack, &mut root, &mut anchors, F::Map(p, d), a),
                _ => return Err("MappingEnd without a complete mapping".into()),
            },
            Ev::Sc(v, st, a, t) => put(&mut stack, &mut root, &mut anchors, F::Leaf(resolve_scalar(v, *st, t)), *a),
            Ev::Al(a) => {
                let n = anchors.get(a).cloned().unwrap_or(F::Leaf(Canon::Bad));
                put(&mut stack, &mut root, &mut anchors, n, 0);
            }
        }
    }
    Ok(docs)
}
