//! Push-down recogniser for the YAML event sentence (C02), written from the property statement:
//!   SS (DS node DE)* SE ;  node ::= scalar | alias | SeqS node* SeqE | MapS (node node)* MapE
//! plus the anchor-id discipline.

use crate::subject::Ev;
use std::collections::HashSet;

#[derive(Clone, Copy, Debug, PartialEq)]
enum Top {
    BeforeStream,
    BetweenDocs,
    DocNeedsNode,
    DocHasNode,
    AfterStream,
}
#[derive(Clone, Copy, Debug)]
enum Frame {
    Seq,
    Map(usize),
}

pub struct Grammar {
    top: Top,
    stack: Vec<Frame>,
    doc_anchors: HashSet<usize>,
    stream_anchors: HashSet<usize>,
}

impl Default for Grammar {
    fn default() -> Self {
        Grammar { top: Top::BeforeStream, stack: vec![], doc_anchors: HashSet::new(), stream_anchors: HashSet::new() }
    }
}

impl Grammar {
    fn node_allowed(&self) -> Result<(), String> {
        if self.stack.is_empty() {
            if self.top == Top::DocNeedsNode {
                Ok(())
            } else {
                Err(format!("node event in top state {:?}", self.top))
            }
        } else {
            Ok(())
        }
    }
    fn node_done(&mut self) {
        match self.stack.last_mut() {
            None => self.top = Top::DocHasNode,
            Some(Frame::Seq) => {}
            Some(Frame::Map(n)) => *n += 1,
        }
    }
    fn anchor(&mut self, a: usize) -> Result<(), String> {
        if a == 0 {
            return Ok(());
        }
        if !self.doc_anchors.insert(a) {
            return Err(format!("anchor id {a} used twice in one document"));
        }
        self.stream_anchors.insert(a);
        Ok(())
    }
    /// Consumes one event; Err = the sentence is no longer a viable prefix.
    pub fn feed(&mut self, ev: &Ev) -> Result<(), String> {
        match ev {
            Ev::Nothing => Err("Event::Nothing delivered".into()),
            Ev::SS => {
                if self.top == Top::BeforeStream {
                    self.top = Top::BetweenDocs;
                    Ok(())
                } else {
                    Err("StreamStart not first".into())
                }
            }
            Ev::SE => {
                if self.top == Top::BetweenDocs && self.stack.is_empty() {
                    self.top = Top::AfterStream;
                    Ok(())
                } else {
                    Err(format!("StreamEnd in state {:?} depth {}", self.top, self.stack.len()))
                }
            }
            Ev::DS(_) => {
                if self.top == Top::BetweenDocs {
                    self.top = Top::DocNeedsNode;
                    self.doc_anchors.clear();
                    Ok(())
                } else {
                    Err(format!("DocumentStart in state {:?}", self.top))
                }
            }
            Ev::DE => {
                if self.top == Top::DocHasNode && self.stack.is_empty() {
                    self.top = Top::BetweenDocs;
                    Ok(())
                } else {
                    Err(format!("DocumentEnd in state {:?} depth {}", self.top, self.stack.len()))
                }
            }
            Ev::Sc(_, _, a, _) => {
                self.node_allowed()?;
                self.anchor(*a)?;
                self.node_done();
                Ok(())
            }
            Ev::Al(a) => {
                self.node_allowed()?;
                if *a == 0 || !self.stream_anchors.contains(a) {
                    return Err(format!("alias id {a} was never handed out"));
                }
                self.node_done();
                Ok(())
            }
            Ev::SeqS(a, _) => {
                self.node_allowed()?;
                self.anchor(*a)?;
                self.stack.push(Frame::Seq);
                Ok(())
            }
            Ev::MapS(a, _) => {
                self.node_allowed()?;
                self.anchor(*a)?;
                self.stack.push(Frame::Map(0));
                Ok(())
            }
            Ev::SeqE => match self.stack.pop() {
                Some(Frame::Seq) => {
                    self.node_done();
                    Ok(())
                }
                other => Err(format!("SequenceEnd closes {other:?}")),
            },
            Ev::MapE => match self.stack.pop() {
                Some(Frame::Map(n)) if n % 2 == 0 => {
                    self.node_done();
                    Ok(())
                }
                Some(Frame::Map(n)) => Err(format!("MappingEnd after an odd number ({n}) of nodes")),
                other => Err(format!("MappingEnd closes {other:?}")),
            },
        }
    }
    pub fn accepting(&self) -> bool {
        self.top == Top::AfterStream && self.stack.is_empty()
    }
}

/// Checks a whole observation: Ok(()) or the first reason it is not (a prefix of) a sentence.
pub fn check_sentence<'a, I: Iterator<Item = &'a Ev>>(evs: I, complete: bool) -> Result<(), String> {
    let mut g = Grammar::default();
    for (i, e) in evs.enumerate() {
        g.feed(e).map_err(|m| format!("event #{i} {e:?}: {m}"))?;
    }
    if complete && !g.accepting() {
        return Err("parse reported no error but the sentence is incomplete".into());
    }
    Ok(())
}
