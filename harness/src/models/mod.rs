pub mod grammar;
pub mod pos;
