pub mod grammar;
pub mod pos;
pub mod fold;
pub mod core_schema;
