pub mod grammar;
pub mod pos;
pub mod scalar_text;
pub mod damage;
pub mod render;
pub mod block_scalar;
pub mod fold;
pub mod core_schema;
