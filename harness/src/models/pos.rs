//! Line/column truth by counting breaks (C12, C14). `\n`, `\r` and `\r\n` are one break each.

/// (line, col) of char index `idx`; lines are 1-based, columns 0-based.
pub fn pos_truth(chars: &[char], idx: usize) -> (usize, usize) {
    let mut line = 1;
    let mut col = 0;
    let mut i = 0;
    while i < idx {
        let c = chars[i];
        if c == '\r' && i + 1 < chars.len() && chars[i + 1] == '\n' {
            if i + 1 < idx {
                i += 2;
                line += 1;
                col = 0;
            } else {
                // position between CR and LF: still on the old line
                i += 1;
                col += 1;
            }
        } else if c == '\n' || c == '\r' {
            line += 1;
            col = 0;
            i += 1;
        } else {
            col += 1;
            i += 1;
        }
    }
    (line, col)
}

/// Table of (line, col) for every index 0..=len (faster when many markers are checked).
pub fn pos_table(chars: &[char]) -> Vec<(usize, usize)> {
    let mut t = Vec::with_capacity(chars.len() + 1);
    let mut line = 1;
    let mut col = 0;
    let mut i = 0;
    while i < chars.len() {
        t.push((line, col));
        let c = chars[i];
        if c == '\r' && i + 1 < chars.len() && chars[i + 1] == '\n' {
            t.push((line, col + 1));
            i += 2;
            line += 1;
            col = 0;
        } else if c == '\n' || c == '\r' {
            i += 1;
            line += 1;
            col = 0;
        } else {
            i += 1;
            col += 1;
        }
    }
    t.push((line, col));
    t
}
