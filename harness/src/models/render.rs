//! Abstract YAML streams, their denotation as event sentences, and a spec-derived renderer that
//! asks a choice source wherever YAML 1.2 leaves the layout free (C03, C06, and the S-gen scope).
//!
//! The renderer under-approximates the legal language on purpose: it only produces layouts whose
//! denotation is unambiguous (calibration rules in DESIGN §2.3 / §4 C03).

use crate::engine::Ch;

#[derive(Clone, Debug, PartialEq, Eq, Hash)]
pub enum N {
    Null,
    /// text, style: 0 plain 1 single 2 double 3 literal
    Sc(String, u8),
    Seq(Vec<T>, bool /*flow*/),
    Map(Vec<(T, T)>, bool /*flow*/),
    /// alias to the anchor with this number
    Alias(usize),
}
#[derive(Clone, Debug, PartialEq, Eq, Hash)]
pub struct T {
    pub n: N,
    pub anchor: Option<usize>,
    /// 1 `!t`, 2 `!!str`, 3 `!<v>`
    pub tag: Option<u8>,
}
impl T {
    pub fn plain(n: N) -> T {
        T { n, anchor: None, tag: None }
    }
    pub fn bare_null(&self) -> bool {
        matches!(self.n, N::Null) && self.anchor.is_none() && self.tag.is_none()
    }
    pub fn size(&self) -> usize {
        1 + match &self.n {
            N::Seq(k, _) => k.iter().map(|c| c.size()).sum(),
            N::Map(p, _) => p.iter().map(|(a, b)| a.size() + b.size()).sum(),
            _ => 0,
        }
    }
}

// ---------- exhaustive tree enumeration ----------

fn compositions(n: usize) -> Vec<Vec<usize>> {
    if n == 0 {
        return vec![vec![]];
    }
    let mut out = vec![];
    for first in 1..=n {
        for mut rest in compositions(n - first) {
            let mut v = vec![first];
            v.append(&mut rest);
            out.push(v);
        }
    }
    out
}
fn product(parts: &[usize]) -> Vec<Vec<T>> {
    if parts.is_empty() {
        return vec![vec![]];
    }
    let heads = trees_of_size(parts[0]);
    let tails = product(&parts[1..]);
    let mut out = vec![];
    for h in &heads {
        for t in &tails {
            let mut v = vec![h.clone()];
            v.extend(t.iter().cloned());
            out.push(v);
        }
    }
    out
}
/// All undecorated trees with exactly `size` nodes (scalars `a`/`b`, null, empty collections,
/// block and flow collections).
pub fn trees_of_size(size: usize) -> Vec<T> {
    let mut out = vec![];
    if size == 1 {
        for s in ["a", "b"] {
            out.push(T::plain(N::Sc(s.into(), 0)));
        }
        out.push(T::plain(N::Null));
        out.push(T::plain(N::Seq(vec![], true)));
        out.push(T::plain(N::Map(vec![], true)));
        return out;
    }
    for parts in compositions(size - 1) {
        for kids in product(&parts) {
            for flow in [false, true] {
                out.push(T::plain(N::Seq(kids.clone(), flow)));
            }
        }
        if parts.len() % 2 == 0 {
            for kids in product(&parts) {
                let pairs: Vec<(T, T)> = kids.chunks(2).map(|c| (c[0].clone(), c[1].clone())).collect();
                for flow in [false, true] {
                    out.push(T::plain(N::Map(pairs.clone(), flow)));
                }
            }
        }
    }
    out
}
/// All *flow-only* trees with exactly `size` nodes over the leaves {a, null}: a cheaper
/// space than `trees_of_size` that reaches deeper flow nesting (single-pair mappings whose value is
/// a multi-entry flow mapping, ...).
pub fn flow_trees_of_size(size: usize) -> Vec<T> {
    let mut out = vec![];
    if size == 1 {
        out.push(T::plain(N::Sc("a".into(), 0)));
        out.push(T::plain(N::Null));
        return out;
    }
    fn prod(parts: &[usize]) -> Vec<Vec<T>> {
        if parts.is_empty() {
            return vec![vec![]];
        }
        let heads = flow_trees_of_size(parts[0]);
        let tails = prod(&parts[1..]);
        let mut out = vec![];
        for h in &heads {
            for t in &tails {
                let mut v = vec![h.clone()];
                v.extend(t.iter().cloned());
                out.push(v);
            }
        }
        out
    }
    for parts in compositions(size - 1) {
        for kids in prod(&parts) {
            out.push(T::plain(N::Seq(kids.clone(), true)));
            if parts.len() % 2 == 0 {
                let pairs: Vec<(T, T)> = kids.chunks(2).map(|c| (c[0].clone(), c[1].clone())).collect();
                out.push(T::plain(N::Map(pairs, true)));
            }
        }
    }
    out
}
pub fn all_flow_trees(min_size: usize, max_size: usize) -> Vec<T> {
    (min_size..=max_size).flat_map(flow_trees_of_size).filter(|t| renderable(t, false)).collect()
}

fn flow_only(t: &T) -> bool {
    match &t.n {
        N::Seq(k, f) => *f && k.iter().all(flow_only),
        N::Map(p, f) => *f && p.iter().all(|(a, b)| flow_only(a) && flow_only(b)),
        N::Sc(_, st) => *st != 3,
        _ => true,
    }
}
/// flow collections contain only flow children
pub fn well_styled(t: &T) -> bool {
    match &t.n {
        N::Seq(k, f) => (!*f || k.iter().all(flow_only)) && k.iter().all(well_styled),
        N::Map(p, f) => (!*f || p.iter().all(|(a, b)| flow_only(a) && flow_only(b))) && p.iter().all(|(a, b)| well_styled(a) && well_styled(b)),
        _ => true,
    }
}
/// shapes the renderer cannot write down: a bare null as an item of a flow sequence
pub fn renderable(t: &T, in_flow_seq: bool) -> bool {
    match &t.n {
        N::Null => !(in_flow_seq && t.anchor.is_none() && t.tag.is_none()),
        N::Seq(k, f) => k.iter().all(|c| renderable(c, *f)),
        N::Map(p, _) => p.iter().all(|(a, b)| renderable(a, false) && renderable(b, false)),
        _ => true,
    }
}
pub fn all_trees(max_size: usize) -> Vec<T> {
    (1..=max_size).flat_map(trees_of_size).filter(|t| well_styled(t) && renderable(t, false)).collect()
}

// ---------- denotation ----------

#[derive(Debug, Clone, PartialEq, Eq, Hash)]
pub enum E {
    SS,
    SE,
    DS,
    DE,
    Seq(usize, String),
    SeqE,
    Map(usize, String),
    MapE,
    /// value (None = null scalar: plain `~` or empty), style, anchor, tag
    Sc(Option<String>, u8, usize, String),
    Al(usize),
}
pub fn tagstr(t: Option<u8>) -> String {
    match t {
        None => String::new(),
        Some(1) => "!t".into(),
        Some(2) => "tag:yaml.org,2002:str".into(),
        _ => "v".into(),
    }
}
pub fn expect_node(t: &T, out: &mut Vec<E>) {
    let a = t.anchor.unwrap_or(0);
    let tg = tagstr(t.tag);
    match &t.n {
        N::Null => out.push(E::Sc(None, 0, a, tg)),
        N::Sc(s, st) => out.push(E::Sc(Some(if *st == 3 { format!("{s}\n") } else { s.clone() }), *st, a, tg)),
        N::Alias(i) => out.push(E::Al(*i)),
        N::Seq(k, _) => {
            out.push(E::Seq(a, tg));
            for c in k {
                expect_node(c, out);
            }
            out.push(E::SeqE);
        }
        N::Map(p, _) => {
            out.push(E::Map(a, tg));
            for (x, y) in p {
                expect_node(x, out);
                expect_node(y, out);
            }
            out.push(E::MapE);
        }
    }
}
pub fn expect_stream(docs: &[T]) -> Vec<E> {
    let mut exp = vec![E::SS];
    for d in docs {
        exp.push(E::DS);
        expect_node(d, &mut exp);
        exp.push(E::DE);
    }
    exp.push(E::SE);
    exp
}

// ---------- decoration (styles, anchors, tags, aliases) through the choice source ----------

/// `anchors_in_doc`: anchors defined so far in this document (aliases may only refer to those).
pub fn decorate(t: &T, ch: &mut Ch, next_anchor: &mut usize, doc_first_anchor: usize, in_flow: bool, lit_ok: bool) -> T {
    let mut r = t.clone();
    if let N::Sc(s, _) = &t.n {
        let avail = *next_anchor - doc_first_anchor;
        if avail > 0 {
            let k = ch.pick(avail + 1);
            if k > 0 {
                return T { n: N::Alias(doc_first_anchor + k - 1), anchor: None, tag: None };
            }
        }
        let st = ch.pick(if lit_ok && !in_flow { 4 } else { 3 });
        r.n = N::Sc(s.clone(), st as u8);
    }
    if ch.flag() {
        r.anchor = Some(*next_anchor);
        *next_anchor += 1;
    }
    let tg = ch.pick(4);
    if tg > 0 {
        r.tag = Some(tg as u8);
    }
    match &t.n {
        N::Seq(k, f) => {
            r.n = N::Seq(k.iter().map(|c| decorate(c, ch, next_anchor, doc_first_anchor, in_flow || *f, !*f)).collect(), *f);
        }
        N::Map(p, f) => {
            r.n = N::Map(p.iter().map(|(x, y)| (decorate(x, ch, next_anchor, doc_first_anchor, in_flow || *f, false), decorate(y, ch, next_anchor, doc_first_anchor, in_flow || *f, !*f))).collect(), *f);
        }
        _ => {}
    }
    r
}

// ---------- renderer ----------

/// What a rendered line is, for the damage operators of C06.
#[derive(Clone, Copy, Debug, PartialEq, Eq)]
pub enum LineKind {
    /// starts a block entry or key (`- `, `? `, `: ` or an implicit key) at its indentation
    BlockEntry,
    /// continuation line inside a multi-line flow collection that begins with an entry
    FlowEntry,
    /// anything else (comments, blanks, brackets, scalars continued, document markers…)
    Other,
}

/// Positions of constructs in the rendered text (byte offsets), for the damage operators.
#[derive(Clone, Debug, PartialEq, Eq)]
pub enum Mark {
    /// a quoted scalar including its quotes; style 1 single / 2 double; `block_key`: it is the
    /// implicit key of a block mapping entry
    Quoted { start: usize, end: usize, style: u8, block_key: bool },
    /// an outermost flow collection including its brackets
    Flow { start: usize, end: usize },
    /// the scalar text of a plain implicit key of a block mapping entry
    PlainBlockKey { start: usize, end: usize },
    /// a plain scalar inside a flow collection; `parent` = indentation of the enclosing block construct
    FlowPlain { start: usize, end: usize, parent: isize },
    /// a quoted scalar (with its quotes) inside a flow collection
    FlowQuoted { start: usize, end: usize, parent: isize, seq_pair_key: bool },
}

pub struct R<'a> {
    pub out: String,
    pub ch: &'a mut Ch,
    oneline: u32,
    pub marks: Vec<Mark>,
    in_block_key: bool,
    /// the first block entry line of each collection (not a candidate for re-indentation)
    pub first_lines: Vec<usize>,
    /// (byte offset of line start, kind, indentation of the enclosing block collection)
    pub lines: Vec<(usize, LineKind, isize)>,
    /// open block indentation levels at each BlockEntry line (for the dedent operator)
    pub levels: Vec<Vec<isize>>,
    open: Vec<isize>,
    flow_parent: Vec<isize>,
    /// the default form of a block mapping entry is the explicit one (`? k` / `: v`) instead of `k: v`
    pub explicit_baseline: bool,
    /// the node being written is the implicit key of a brace-less pair inside a flow sequence
    in_seq_pair_key: bool,
}

impl<'a> R<'a> {
    pub fn new(ch: &'a mut Ch) -> Self {
        R { out: String::new(), ch, oneline: 0, marks: vec![], in_block_key: false, first_lines: vec![], lines: vec![], levels: vec![], open: vec![], flow_parent: vec![], explicit_baseline: false, in_seq_pair_key: false }
    }
    fn col(&self) -> usize {
        self.out.rsplit('\n').next().unwrap().chars().count()
    }
    fn mark_line(&mut self, kind: LineKind, parent: isize) {
        let start = self.out.rfind('\n').map_or(0, |i| i + 1);
        if let Some(last) = self.lines.last() {
            if last.0 == start {
                return;
            }
        }
        self.lines.push((start, kind, parent));
        self.levels.push(self.open.clone());
    }
    fn note_first(&mut self) {
        let start = self.out.rfind('\n').map_or(0, |i| i + 1);
        self.first_lines.push(start);
    }
    fn eol(&mut self) {
        match self.ch.pick(3) {
            1 => self.out.push_str(" # c"),
            2 => self.out.push_str("  "),
            _ => {}
        }
        self.out.push('\n');
        match self.ch.pick(4) {
            1 => self.out.push('\n'),
            2 => self.out.push_str("# full\n"),
            3 => self.out.push_str("      # deep\n"),
            _ => {}
        }
    }
    fn space(&mut self) {
        if !self.out.ends_with(' ') && !self.out.ends_with('\n') && !self.out.is_empty() {
            self.out.push(' ');
        }
    }
    fn props(&mut self, t: &T) -> bool {
        let a = t.anchor.map(|a| format!("&a{a} "));
        let g = t.tag.map(|g| match g {
            1 => "!t ",
            2 => "!!str ",
            _ => "!<v> ",
        });
        match (a, g) {
            (Some(a), Some(g)) => {
                if self.ch.flag() {
                    self.out.push_str(g);
                    self.out.push_str(&a);
                } else {
                    self.out.push_str(&a);
                    self.out.push_str(g);
                }
                true
            }
            (Some(a), None) => {
                self.out.push_str(&a);
                true
            }
            (None, Some(g)) => {
                self.out.push_str(g);
                true
            }
            _ => false,
        }
    }
    fn scalar_text(&mut self, s: &str, st: u8) {
        let start = self.out.len();
        self.scalar_text_inner(s, st);
        let end = self.out.len();
        if st == 0 {
            if self.in_block_key {
                self.marks.push(Mark::PlainBlockKey { start, end });
            }
        } else {
            self.marks.push(Mark::Quoted { start, end, style: st, block_key: self.in_block_key });
        }
    }
    fn scalar_text_inner(&mut self, s: &str, st: u8) {
        match st {
            0 => self.out.push_str(s),
            1 => {
                self.out.push('\'');
                self.out.push_str(s);
                self.out.push('\'');
            }
            _ => {
                self.out.push('"');
                self.out.push_str(s);
                self.out.push('"');
            }
        }
    }
    fn is_block_coll(t: &T) -> bool {
        matches!(&t.n, N::Seq(k, false) if !k.is_empty()) || matches!(&t.n, N::Map(p, false) if !p.is_empty())
    }
    /// flow node; `n` = indentation of the enclosing block construct
    fn flow(&mut self, t: &T, n: isize) {
        let had_props = self.props(t);
        match &t.n {
            N::Null => {
                if had_props {
                    self.out.pop();
                }
            }
            N::Sc(s, st) => {
                let from = self.out.len();
                self.scalar_text(s, *st);
                if *st == 0 && !s.is_empty() && !self.flow_parent.is_empty() {
                    self.marks.push(Mark::FlowPlain { start: from, end: self.out.len(), parent: n });
                }
                if (*st == 1 || *st == 2) && !self.flow_parent.is_empty() {
                    self.marks.push(Mark::FlowQuoted { start: from, end: self.out.len(), parent: n, seq_pair_key: self.in_seq_pair_key });
                }
            }
            N::Alias(i) => self.out.push_str(&format!("*a{i}")),
            N::Seq(k, _) => {
                let fstart = self.out.len();
                let outer = self.flow_parent.is_empty();
                self.out.push('[');
                self.flow_parent.push(n);
                self.fsep(n, true, false);
                for (i, c) in k.iter().enumerate() {
                    if i > 0 {
                        self.out.push(',');
                        self.fsep(n, false, true);
                    } else {
                        self.entry_line(n);
                    }
                    self.flow_seq_item(c, n);
                }
                if !k.is_empty() && self.ch.flag() {
                    self.out.push(',');
                }
                self.fsep(n, true, false);
                self.out.push(']');
                self.flow_parent.pop();
                if outer {
                    self.marks.push(Mark::Flow { start: fstart, end: self.out.len() });
                }
            }
            N::Map(p, _) => {
                let fstart = self.out.len();
                let outer = self.flow_parent.is_empty();
                self.out.push('{');
                self.flow_parent.push(n);
                self.fsep(n, true, false);
                for (i, (x, y)) in p.iter().enumerate() {
                    if i > 0 {
                        self.out.push(',');
                        self.fsep(n, false, true);
                    } else {
                        self.entry_line(n);
                    }
                    self.flow_pair(x, y, n, false);
                }
                if !p.is_empty() && self.ch.flag() {
                    self.out.push(',');
                }
                self.fsep(n, true, false);
                self.out.push('}');
                self.flow_parent.pop();
                if outer {
                    self.marks.push(Mark::Flow { start: fstart, end: self.out.len() });
                }
            }
        }
    }
    /// if the cursor sits at the start of a continuation line, that line begins with an entry
    fn entry_line(&mut self, n: isize) {
        let line = self.out.rsplit('\n').next().unwrap();
        if !self.out.is_empty() && self.out.contains('\n') && line.chars().all(|c| c == ' ') && !self.flow_parent.is_empty() {
            // mark once the entry text is written: remember position now
            let start = self.out.rfind('\n').map_or(0, |i| i + 1);
            if self.lines.last().map_or(true, |l| l.0 != start) {
                self.lines.push((start, LineKind::FlowEntry, n));
                self.levels.push(self.open.clone());
            }
        }
    }
    fn flow_seq_item(&mut self, c: &T, n: isize) {
        // single-pair mapping written without braces
        if let N::Map(p, true) = &c.n {
            if p.len() == 1 && c.anchor.is_none() && c.tag.is_none() && self.oneline == 0 {
                let (x, y) = &p[0];
                let key_ok = !matches!(x.n, N::Seq(..) | N::Map(..)) || true;
                if key_ok && !(x.bare_null() && y.bare_null()) && self.ch.flag() {
                    self.flow_pair(x, y, n, true);
                    return;
                }
            }
        }
        self.flow(c, n);
    }
    fn flow_pair(&mut self, x: &T, y: &T, n: isize, in_seq: bool) {
        let explicit = self.ch.flag();
        if explicit {
            self.out.push_str("? ");
        }
        let key_empty = x.bare_null();
        // implicit keys are rendered in one-line mode
        if !explicit || in_seq {
            self.oneline += 1;
        }
        self.in_seq_pair_key = in_seq && !explicit;
        self.flow(x, n);
        self.in_seq_pair_key = false;
        if !explicit || in_seq {
            self.oneline -= 1;
        }
        let val_empty = y.bare_null();
        // `{a}` form: key only (flow mappings; not inside a brace-less pair)
        if val_empty && !key_empty && !explicit && !in_seq && !matches!(x.n, N::Alias(_) | N::Null) && self.ch.flag() {
            return;
        }
        let json_like_key = matches!(x.n, N::Sc(_, 1 | 2) | N::Seq(..) | N::Map(..));
        if matches!(x.n, N::Alias(_)) || (matches!(x.n, N::Null) && !key_empty) || (key_empty && explicit) {
            self.space();
        } else if !key_empty {
            // separation between the key and ':': nothing, a space, or (in a flow mapping, outside
            // one-line mode) a line break
            let k = if !in_seq && self.oneline == 0 { self.ch.pick(3) } else { self.ch.pick(2) };
            match k {
                1 => self.out.push(' '),
                2 => {
                    self.out.push('\n');
                    let extra = self.ch.pick(2);
                    for _ in 0..(n + 1).max(0) as usize + extra {
                        self.out.push(' ');
                    }
                }
                _ => {}
            }
        }
        self.out.push(':');
        if !val_empty {
            // adjacency `"k":v` is only legal after a JSON-like key
            if json_like_key && self.ch.flag() && !matches!(y.n, N::Null) {
                // no space
            } else {
                self.out.push(' ');
            }
            if in_seq {
                self.oneline += 1;
            }
            self.flow(y, n);
            if in_seq {
                self.oneline -= 1;
            }
        } else if self.ch.flag() {
            self.out.push(' ');
        }
    }
    /// separation inside flow collections; `edge` = next to a bracket; `entry` = an entry follows
    fn fsep(&mut self, n: isize, edge: bool, entry: bool) {
        let k = if self.oneline > 0 { self.ch.pick(2) } else { self.ch.pick(3) };
        match k {
            0 => {
                if !edge {
                    self.out.push(' ');
                }
            }
            1 => self.out.push_str("  "),
            _ => {
                self.out.push('\n');
                let extra = self.ch.pick(2);
                for _ in 0..(n + 1).max(0) as usize + extra {
                    self.out.push(' ');
                }
                if entry {
                    self.entry_line(n);
                }
            }
        }
    }
    /// block node placed after an indicator on the same line or at line start; `n` = indentation
    /// of the parent construct (-1 at top level)
    fn block_value(&mut self, t: &T, n: isize, compact_ok: bool, seq_indentless_ok: bool) {
        if Self::is_block_coll(t) {
            let has_props = t.anchor.is_some() || t.tag.is_some();
            if compact_ok && !has_props && self.ch.pick(2) == 0 {
                self.space();
                let extra = self.ch.pick(2);
                for _ in 0..extra {
                    self.out.push(' ');
                }
                let c = self.col() as isize;
                self.block_coll(t, c);
                return;
            }
            if has_props {
                self.space();
                self.props(t);
                self.out.pop();
            }
            self.eol();
            let min = if seq_indentless_ok && matches!(t.n, N::Seq(..)) { n.max(0) } else { n + 1 };
            let m = min + self.ch.pick(3) as isize;
            for _ in 0..m {
                self.out.push(' ');
            }
            self.block_coll(t, m);
            return;
        }
        if t.bare_null() {
            self.eol();
            return;
        }
        if let N::Sc(sv, 3) = &t.n {
            self.space();
            self.props(t);
            self.out.push('|');
            match self.ch.pick(3) {
                1 => self.out.push_str(" # c"),
                2 => self.out.push_str("  "),
                _ => {}
            }
            self.out.push('\n');
            let ind = (n + 1).max(1) as usize + self.ch.pick(2);
            for _ in 0..ind {
                self.out.push(' ');
            }
            self.out.push_str(sv);
            self.out.push('\n');
            // after literal content only a blank line or a less-indented comment may follow
            match self.ch.pick(3) {
                1 => self.out.push('\n'),
                2 => self.out.push_str("# full\n"),
                _ => {}
            }
            return;
        }
        if !matches!(t.n, N::Null) && self.oneline == 0 && self.ch.flag() {
            // next line, deeper indentation
            self.eol();
            let extra = self.ch.pick(2);
            for _ in 0..((n + 1).max(0) as usize + extra) {
                self.out.push(' ');
            }
        } else {
            self.space();
        }
        self.flow(t, n);
        self.eol();
    }
    /// cursor is at column m where the first entry starts
    fn block_coll(&mut self, t: &T, m: isize) {
        self.open.push(m);
        match &t.n {
            N::Seq(k, _) => {
                for (i, c) in k.iter().enumerate() {
                    if i > 0 {
                        for _ in 0..m {
                            self.out.push(' ');
                        }
                    }
                    self.out.push('-');
                    self.mark_line(LineKind::BlockEntry, m);
                    if i == 0 {
                        self.note_first();
                    }
                    if self.ch.flag() && !c.bare_null() && !Self::is_block_coll(c) {
                        self.out.push(' '); // two spaces after the indicator
                    }
                    self.block_value(c, m, true, false);
                }
            }
            N::Map(p, _) => {
                for (i, (x, y)) in p.iter().enumerate() {
                    if i > 0 {
                        for _ in 0..m {
                            self.out.push(' ');
                        }
                    }
                    let simple_key = !Self::is_block_coll(x) && !matches!(x.n, N::Sc(_, 3));
                    let key_empty = x.bare_null();
                    if simple_key && ((self.ch.pick(2) == 0) != self.explicit_baseline) {
                        if !key_empty {
                            self.oneline += 1;
                            self.in_block_key = matches!(x.n, N::Sc(..));
                            self.flow(x, m);
                            self.in_block_key = false;
                            self.oneline -= 1;
                            if matches!(x.n, N::Alias(_) | N::Null) {
                                self.out.push(' ');
                            } else if self.ch.flag() {
                                self.out.push(' ');
                            }
                        }
                        self.out.push(':');
                        self.mark_line(LineKind::BlockEntry, m);
                        if i == 0 {
                            self.note_first();
                        }
                        self.block_value(y, m, false, true);
                    } else {
                        self.out.push('?');
                        self.mark_line(LineKind::BlockEntry, m);
                        if i == 0 {
                            self.note_first();
                        }
                        self.block_value(x, m, true, false);
                        let val_empty = y.bare_null();
                        // the ':' may be omitted, except in front of an entry with an empty implicit key
                        let next_has_empty_key = p.get(i + 1).map_or(false, |(k, _)| k.bare_null());
                        if val_empty && !next_has_empty_key && self.ch.flag() {
                            continue;
                        }
                        for _ in 0..m {
                            self.out.push(' ');
                        }
                        self.out.push(':');
                        self.mark_line(LineKind::BlockEntry, m);
                        self.block_value(y, m, true, false);
                    }
                }
            }
            _ => unreachable!(),
        }
        self.open.pop();
    }
    fn doc(&mut self, t: &T, first: bool) {
        let explicit = !first || self.ch.flag() || t.bare_null();
        if explicit {
            self.out.push_str("---");
            self.block_value(t, -1, false, false);
        } else {
            self.block_value(t, -1, true, false);
        }
        // 0-3 document-end marker lines (a run of markers still ends one document)
        for _ in 0..self.ch.pick(4) {
            self.out.push_str("...");
            self.eol();
        }
    }
}

pub struct Rendering {
    pub text: String,
    pub docs: Vec<T>,
    pub expect: Vec<E>,
    pub lines: Vec<(usize, LineKind, isize)>,
    pub levels: Vec<Vec<isize>>,
    pub marks: Vec<Mark>,
    pub first_lines: Vec<usize>,
    /// the last document is terminated by a `...` line
    pub last_doc_has_end_marker: bool,
}

/// Decorates and renders the abstract documents with the given choice source.
pub fn render(ts: &[T], ch: &mut Ch) -> Rendering {
    render_with(ts, ch, false)
}
/// `explicit_baseline`: block mapping entries are written `? k` / `: v` unless a choice says otherwise
pub fn render_with(ts: &[T], ch: &mut Ch, explicit_baseline: bool) -> Rendering {
    let mut na = 1usize;
    let mut dts = vec![];
    for t in ts {
        let first = na;
        dts.push(decorate(t, ch, &mut na, first, false, true));
    }
    let expect = expect_stream(&dts);
    let mut r = R::new(ch);
    r.explicit_baseline = explicit_baseline;
    if r.ch.flag() {
        r.out.push_str("%YAML 1.2\n---");
        r.block_value(&dts[0], -1, false, false);
        // (a following document needs no marker unless it has directives)
        for _ in 0..r.ch.pick(4) {
            r.out.push_str("...\n");
        }
        for t in dts.iter().skip(1) {
            r.doc(t, false);
        }
    } else {
        // a document-end marker may come before any document
        if r.ch.flag() {
            r.out.push_str("...\n");
        }
        if r.ch.flag() {
            r.out.push_str("# leading comment\n");
        }
        for (i, t) in dts.iter().enumerate() {
            r.doc(t, i == 0);
        }
    }
    let R { out, lines, levels, marks, first_lines, .. } = r;
    let last_doc_has_end_marker = {
        // the last non-comment, non-blank line is a `...` line
        out.lines().rev().find(|l| !l.trim().is_empty() && !l.trim_start().starts_with('#')).map_or(false, |l| l.starts_with("..."))
    };
    Rendering { text: out, docs: dts, expect, lines, levels, marks, first_lines, last_doc_has_end_marker }
}
