//! Presentation model for plain, single- and double-quoted scalars (C04): for a *target string*
//! and a style, the legal ways of writing it down (escape vs literal per character, where to fold,
//! continuation indentation, padding, escaped line breaks), as a choice program. Written from the
//! YAML 1.2 productions for flow scalars (§7.3) and line folding (§6.5).

use crate::engine::Ch;

fn blank(c: char) -> bool {
    c == ' ' || c == '\t'
}
fn nonblank(c: Option<char>) -> bool {
    matches!(c, Some(c) if !blank(c) && c != '\n')
}
/// c-printable
pub fn printable(c: char) -> bool {
    matches!(c, '\t' | '\n' | '\r' | '\x20'..='\x7e' | '\u{85}' | '\u{a0}'..='\u{d7ff}' | '\u{e000}'..='\u{fffd}' | '\u{10000}'..='\u{10ffff}') && c != '\u{feff}'
}

/// Body of the scalar (without quotes), or None if the target is not representable in this style
/// and context. `ci` = minimal continuation indentation; `oneline` = no line breaks allowed
/// (implicit keys); `flow` = inside a flow collection; `toplevel` = document-marker look-alikes.
pub fn present(t: &[char], style: u8, ci: usize, oneline: bool, flow: bool, toplevel: bool, ch: &mut Ch) -> Option<String> {
    let mut o = String::new();
    let n = t.len();
    if style == 0 {
        // ns-plain(n,c)
        if n == 0 {
            return None;
        }
        let f = t[0];
        if blank(f) || f == '\n' || blank(t[n - 1]) || t[n - 1] == '\n' {
            return None;
        }
        if ",[]{}#&*!|>'\"%@`".contains(f) {
            return None;
        }
        if "-?:".contains(f) {
            if n == 1 {
                return None;
            }
            let s = t[1];
            if blank(s) || s == '\n' {
                return None;
            }
            if flow && ",[]{}".contains(s) {
                return None;
            }
        }
        for i in 0..n {
            if !printable(t[i]) || t[i] == '\r' {
                return None;
            }
            if t[i] == ':' {
                if i + 1 == n {
                    return None;
                }
                let s = t[i + 1];
                if blank(s) || s == '\n' {
                    return None;
                }
                if flow && ",[]{}".contains(s) {
                    return None;
                }
            }
            if t[i] == '#' && i > 0 && (blank(t[i - 1]) || t[i - 1] == '\n') {
                return None;
            }
            if flow && ",[]{}".contains(t[i]) {
                return None;
            }
        }
        if toplevel && n >= 3 && (t[..3] == ['-', '-', '-'] || t[..3] == ['.', '.', '.']) && (n == 3 || blank(t[3]) || t[3] == '\n') {
            return None;
        }
    }
    if style == 1 {
        // single quotes cannot hold non-printable characters or line-leading/trailing content that needs escapes
        if t.iter().any(|c| !printable(*c) || *c == '\r') {
            return None;
        }
    }
    let mut i = 0;
    // how the previous character was written: an escaped blank is content, so a fold may follow it
    let mut prev_escaped = false;
    // the next character must be escaped (it is a blank that directly follows a fold)
    let mut force_escape = false;
    while i < n {
        let c = t[i];
        let prev = if i > 0 { Some(t[i - 1]) } else { None };
        let prev_ok = nonblank(prev) || (style == 2 && prev_escaped && prev.map_or(false, blank));
        // optional escaped line break before this character (double-quoted only). Never directly
        // before a fold: after an escaped break, following empty lines each denote a line feed.
        if style == 2 && i > 0 && !oneline && c != '\n' && !force_escape && ch.pick(2) == 1 {
            o.push('\\');
            o.push('\n');
            for _ in 0..ci + ch.pick(2) {
                o.push(' ');
            }
            if blank(c) {
                o.push('\\');
                o.push(if c == ' ' { ' ' } else { 't' });
                prev_escaped = true;
                i += 1;
                continue;
            }
        }
        if c == '\n' {
            let mut k = 1;
            while i + k < n && t[i + k] == '\n' {
                k += 1;
            }
            let next = t.get(i + k).copied();
            // a blank after the fold is possible in double quotes if it is then written as an escape
            let next_ok = nonblank(next) || (style == 2 && next.map_or(false, blank));
            let foldable = !oneline && prev_ok && next_ok && !(style == 0 && next == Some('#'));
            // double-quoted: the run may also be written as an escaped line break followed by k
            // empty lines (after "\<break>" every empty line denotes one line feed; the leading
            // blanks of the continuation line are dropped, so a blank that follows must be escaped)
            let esc_break_ok = style == 2 && !oneline && i > 0 && next.is_some();
            let mut fold = false;
            let mut esc_break = false;
            if style == 2 {
                let mut opts = vec![0u8];
                if foldable {
                    opts.push(1);
                }
                if esc_break_ok {
                    opts.push(2);
                }
                match opts[ch.pick(opts.len())] {
                    1 => fold = true,
                    2 => esc_break = true,
                    _ => {}
                }
            } else {
                if !foldable {
                    return None;
                }
                fold = true;
            }
            if esc_break {
                o.push('\\');
                for _ in 0..k + 1 {
                    o.push('\n');
                }
                for _ in 0..ci + ch.pick(2) {
                    o.push(' ');
                }
                force_escape = next.map_or(false, blank);
                prev_escaped = false;
                i += k;
                continue;
            }
            if fold {
                if ch.pick(2) == 1 {
                    o.push_str("  "); // trailing blanks before a fold are dropped
                }
                for _ in 0..k + 1 {
                    o.push('\n');
                }
                for _ in 0..ci + ch.pick(2) {
                    o.push(' ');
                }
                force_escape = next.map_or(false, blank);
            } else {
                for _ in 0..k {
                    o.push_str("\\n");
                }
            }
            prev_escaped = !fold;
            i += k;
            continue;
        }
        let next = t.get(i + 1).copied();
        let next_ok = nonblank(next) || (style == 2 && next.map_or(false, blank));
        if c == ' ' && !force_escape && !oneline && prev_ok && next_ok && !(style == 0 && next == Some('#')) && ch.pick(2) == 1 {
            // a single interior space rendered as a line fold
            if ch.pick(2) == 1 {
                o.push(' ');
            }
            o.push('\n');
            for _ in 0..ci + ch.pick(2) {
                o.push(' ');
            }
            force_escape = next.map_or(false, blank);
            prev_escaped = false;
            i += 1;
            continue;
        }
        prev_escaped = false;
        match style {
            2 => match c {
                '"' => o.push_str("\\\""),
                '\\' => o.push_str("\\\\"),
                '\t' => {
                    if force_escape || ch.pick(2) == 1 {
                        o.push_str("\\t");
                        prev_escaped = true;
                    } else {
                        o.push('\t');
                    }
                }
                ' ' => {
                    // literal, \x20, \u0020, \U00000020 or the named escape "\ "
                    let k = if force_escape { 1 + ch.pick(4) } else { ch.pick(5) };
                    match k {
                        0 => o.push(' '),
                        1 => o.push_str("\\x20"),
                        2 => o.push_str("\\u0020"),
                        3 => o.push_str("\\U00000020"),
                        _ => o.push_str("\\ "),
                    }
                    prev_escaped = k != 0;
                }
                c => {
                    let k = ch.pick(4);
                    let cp = c as u32;
                    let must_escape = !printable(c) || c == '\r' || c == '\u{85}' || c == '\u{2028}' || c == '\u{2029}';
                    match k {
                        0 if !must_escape => o.push(c),
                        1 if cp < 0x100 => o.push_str(&format!("\\x{cp:02x}")),
                        2 if cp < 0x10000 => o.push_str(&format!("\\u{cp:04X}")),
                        3 => o.push_str(&format!("\\U{cp:08x}")),
                        _ => {
                            if must_escape {
                                o.push_str(&format!("\\U{cp:08X}"));
                            } else {
                                o.push(c);
                            }
                        }
                    }
                }
            },
            1 => {
                if c == '\'' {
                    o.push_str("''");
                } else {
                    o.push(c);
                }
            }
            _ => o.push(c),
        }
        force_escape = false;
        i += 1;
    }
    Some(o)
}

/// Contexts: 0 top level, 1 block mapping value, 2 block mapping key, 3 sequence entry,
/// 4 flow sequence entry, 5 flow mapping key, 6 flow mapping value, 7 sequence entry after a
/// plain scalar + empty line.
/// Returns (text, index of the scalar among the scalar events, total scalar events).
pub fn render(t: &[char], style: u8, ctx: u8, ch: &mut Ch) -> Option<(String, usize, usize)> {
    let (pre, post, ci, oneline, flow, idx, total): (&str, &str, usize, bool, bool, usize, usize) = match ctx {
        0 => ("", "\n", 1, false, false, 0, 1),
        1 => ("k: ", "\nj: w\n", 1, false, false, 1, 4),
        2 => ("", ": v\n", 0, true, false, 0, 2),
        3 => ("- ", "\n- z\n", 1, false, false, 0, 2),
        4 => ("[", ", z]\n", 1, false, true, 0, 2),
        5 => ("{", ": v}\n", 0, true, true, 0, 2),
        6 => ("{k: ", ", j: w}\n", 1, false, true, 1, 4),
        // a sequence entry after an earlier plain scalar that is followed by an empty line
        _ => ("- p\n\n- ", "\n", 1, false, false, 1, 2),
    };
    // optional filler in front so that the scalar straddles the 16-character buffer of BufferedInput
    let filler = match ch.pick(4) {
        0 => "",
        1 => "#aaaaaaaaaaa\n",
        2 => "#aaaaaaaaaaaa\n",
        _ => "#aaaaaaaaaaaaa\n",
    };
    let body = present(t, style, ci, oneline, flow, ctx == 0 || ctx == 2, ch)?;
    let q = match style {
        1 => "'",
        2 => "\"",
        _ => "",
    };
    Some((format!("{filler}{pre}{q}{body}{q}{post}"), idx, total))
}
