//! C01 — parsing always terminates: no panic, abort or hang; linear work.
use super::sweep::*;
use crate::engine::{par_blocks, Budget};
use crate::report::{Acc, Report, Tier};
use serde_json::{json, Value};

/// `S-long`: one generator per scanner loop; (name, nests?, generator)
pub fn long_gens() -> Vec<(&'static str, bool, Box<dyn Fn(usize) -> String + Sync + Send>)> {
    vec![
        ("comment", false, Box::new(|n| format!("a # {}\n", "c".repeat(n)))),
        ("plain-run", false, Box::new(|n| "a".repeat(n))),
        ("plain-words", false, Box::new(|n| "ab ".repeat(n / 3))),
        ("plain-lines", false, Box::new(|n| "ab\n ".repeat(n / 4))),
        ("dq-run", false, Box::new(|n| format!("\"{}\"", "a".repeat(n)))),
        ("dq-folds", false, Box::new(|n| format!("\"{}\"", "ab\n ".repeat(n / 4)))),
        ("dq-escapes", false, Box::new(|n| format!("\"{}\"", "\\n".repeat(n / 2)))),
        ("sq-quotes", false, Box::new(|n| format!("'{}'", "''".repeat(n / 2)))),
        ("literal-lines", false, Box::new(|n| format!("|\n{}", " ab\n".repeat(n / 4)))),
        ("literal-wide-indent", false, Box::new(|n| format!("k:\n                    - |\n{}", "                      ab\n".repeat(n / 25)))),
        ("folded-blank-lines", false, Box::new(|n| format!(">\n a\n{} b\n", "\n".repeat(n)))),
        ("blank-lines", false, Box::new(|n| format!("{}a", "\n".repeat(n)))),
        ("seq-entries", false, Box::new(|n| "- a\n".repeat(n / 4))),
        ("map-entries", false, Box::new(|n| "k: v\n".repeat(n / 5))),
        ("flow-seq-entries", false, Box::new(|n| format!("[{}]", "a, ".repeat(n / 3)))),
        ("flow-map-entries", false, Box::new(|n| format!("{{{}}}", "a: b, ".repeat(n / 6)))),
        ("flow-seq-as-key", false, Box::new(|n| format!("[{}]: v", "a, ".repeat(n / 3)))),
        ("flow-pairs", false, Box::new(|n| format!("[{}]", "a: b, ".repeat(n / 6)))),
        ("nested-seq", true, Box::new(|n| format!("{}a", "- ".repeat(n / 2)))),
        ("nested-qkey", true, Box::new(|n| format!("{}a", "? ".repeat(n / 2)))),
        ("nested-seq-literal", true, Box::new(|n| { let d = n / 6; format!("{}|\n{}a\n{}b\n", "- ".repeat(d), " ".repeat(2 * d), " ".repeat(2 * d)) })),
        ("anchors", false, Box::new(|n| "- &a x\n- *a\n".repeat(n / 12))),
        ("long-anchor", false, Box::new(|n| format!("&{} x", "a".repeat(n)))),
        ("long-tag", false, Box::new(|n| format!("!{} x", "a".repeat(n)))),
        ("long-directive", false, Box::new(|n| format!("%FOO {}\n--- a", "a".repeat(n)))),
        ("docs", false, Box::new(|n| "--- a\n".repeat(n / 6))),
        ("docs-end", false, Box::new(|n| "a\n...\n".repeat(n / 6))),
        ("spaces", false, Box::new(|n| format!("{}a", " ".repeat(n)))),
        ("tabs-after", false, Box::new(|n| format!("a{}", "\t".repeat(n)))),
        ("implicit-key-1000", false, Box::new(|n| format!("{}: v\n", "a".repeat(1000)).repeat(n / 1004 + 1))),
        ("crlf", false, Box::new(|n| "a: b\r\n".repeat(n / 6))),
        ("unclosed-flow", false, Box::new(|n| format!("[{}", "a, ".repeat(n / 3)))),
        ("open-quote", false, Box::new(|n| format!("\"{}", "a ".repeat(n / 2)))),
    ]
}

fn long_eval(name: &str, nests: bool, s: &str, acc: &mut Acc) {
    // Depth-nesting generators are limited to the iterator here: deep nesting through the
    // recursive push/load paths is C11's subject (known finding F-C11).
    if nests && s.len() > 4000 {
        let mut a = Acc::default();
        c01_eval_iter_only(s, &mut a);
        acc.merge(a);
    } else {
        c01_eval(s, acc, true);
    }
    acc.class(crate::report::h64(&(name, s.len())));
    if s.len() <= 200 {
        acc.sample(json!({"generator": name, "chars": s.chars().count()}));
    }
}

fn c01_eval_iter_only(s: &str, acc: &mut Acc) {
    use crate::subject::*;
    acc.evals += 1;
    let n = s.chars().count() as u64;
    for b in C01_BACKENDS {
        let is_gen = matches!(b, Backend::Gen(..));
        if is_gen {
            calls_reset();
        }
        match observe(s, b, Api::Iter) {
            Err(msg) => acc.violation(crate::report::Violation { key: format!("panic backend={} api=iter msg={}", b.name(), classify_panic(&msg)), expected: "no panic".into(), observed: msg, case: str_case(s), size: s.len() }),
            Ok(o) => {
                let evs = o.evs.len() as u64;
                if evs > WORK_EVENTS_PER_CHAR * n + WORK_EVENTS_CONST {
                    acc.violation(crate::report::Violation { key: format!("work-events backend={} api=iter", b.name()), expected: "linear events".into(), observed: format!("{evs} events for {n} chars"), case: str_case(s), size: s.len() });
                }
                if is_gen {
                    let calls = calls_get();
                    acc.maximum("calls_minus_21n", calls.saturating_sub(21 * n));
                    if calls > WORK_CALLS_PER_CHAR * n + WORK_CALLS_CONST {
                        acc.violation(crate::report::Violation { key: format!("work-calls backend={} api=iter", b.name()), expected: "linear input operations".into(), observed: format!("{calls} input operations for {n} chars"), case: str_case(s), size: s.len() });
                    }
                }
            }
        }
    }
}

pub fn check(tier: Tier) -> i32 {
    let mut rep = Report::new("C01", tier, "exploration");
    rep.rule = format!("every string of the listed scopes (all strings up to length N over each alphabet, all chunk sequences up to K from the boundary-chunk menu, the yaml-test-suite inputs, their one-edit neighbourhood and the S-long generators in the thorough tier) is run through 6 input back-ends x {{iterator, peek/next, push}} and through load_from_str / load_from_iter / load_from_parser of the four node types; oracle: no panic, a complete stream or a first error, nothing after StreamEnd, input operations <= {WORK_CALLS_PER_CHAR}n+{WORK_CALLS_CONST} (counted by the harness Input) and events <= {WORK_EVENTS_PER_CHAR}n+{WORK_EVENTS_CONST}. Non-trivial: more than the 4 frame events or an error; distinct: distinct (event-kind sentence, error message, load ok).");
    rep.assumptions = vec![
        "aborts and hangs are detected by the process-isolation wrapper (vp check runs the sweep in a child process, bisects a dead or stalled child down to one input and confirms it by a single-input re-run)".into(),
        "work bound constants are fixed at about 3x the maxima measured on the pinned tree".into(),
        "nesting-depth generators beyond 4000 characters are only driven through the iterator; C11 owns deep nesting through push/load".into(),
    ];
    let plan = plan(tier, 6, 7, 3, 4);
    rep.mandatory_scopes = plan.spaces.len();
    let budget = Budget::new(wall_cap(tier));
    let full = tier == Tier::Thorough;
    run_plan(&mut rep, &plan, &budget, |s, acc| c01_eval(s, acc, full));
    // S-long
    let sizes: &[usize] = if tier == Tier::Quick { &[100, 1000, 10_000] } else { &[100, 1000, 10_000, 100_000] };
    let gens = long_gens();
    let jobs: Vec<(usize, usize)> = (0..gens.len()).flat_map(|g| sizes.iter().map(move |&n| (g, n))).collect();
    let (acc, done) = par_blocks(jobs.len() as u64, &budget, |b, acc| {
        let (g, n) = jobs[b as usize];
        let s = (gens[g].2)(n);
        let mut a = Acc::default();
        long_eval(gens[g].0, gens[g].1, &s, &mut a);
        // recorded by generator and size, not by text (replay regenerates it)
        for (_, (_, v)) in a.viols.iter_mut() {
            v.case = json!({"kind": "long", "generator": gens[g].0, "size": n});
        }
        acc.merge(a);
    });
    let n = acc.evals;
    rep.acc.merge(acc);
    rep.scope("long", n, done == jobs.len() as u64);
    rep.finish()
}

pub fn replay(case: &Value) -> Result<Acc, String> {
    replay_with(case, |s, acc| c01_eval(s, acc, true))
}
