//! C02 — events always form a well-nested YAML event sentence.
use super::sweep::*;
use crate::engine::Budget;
use crate::report::{Acc, Report, Tier};
use serde_json::Value;

pub fn check(tier: Tier) -> i32 {
    let mut rep = Report::new("C02", tier, "exploration");
    rep.rule = "every string of the listed scopes (all strings up to length N over each alphabet, all chunk sequences up to K, the yaml-test-suite inputs and, in the thorough tier, their one-edit neighbourhood) is parsed with {StrInput, BufferedInput, Gen(8)} x {iterator, push}; the delivered events are fed to an independent push-down recogniser of the event grammar with anchor-id discipline. Non-trivial: the parse delivers at least one collection event; distinct: distinct event-kind sentences.".into();
    rep.assumptions = vec!["inputs outside the stated alphabets/lengths are not covered".into()];
    let plan = plan(tier, 6, 8, 3, 4);
    rep.mandatory_scopes = plan.spaces.len();
    let budget = Budget::new(wall_cap(tier));
    run_plan(&mut rep, &plan, &budget, |s, acc| c02_eval(s, acc));
    rep.finish()
}
pub fn replay(case: &Value) -> Result<Acc, String> {
    replay_with(case, |s, acc| c02_eval(s, acc))
}
