//! C02 — events always form a well-nested YAML event sentence.
use super::sweep::*;
use crate::engine::{par_blocks, Budget};
use crate::report::{Acc, Report, Tier};
use serde_json::{json, Value};

/// Streams with very many anchors (the id counter, its table and its width): (shape, count) -> text
pub const ANCHOR_SHAPES: [&str; 4] = ["distinct names in one block sequence + aliases to the first and the last", "one name redefined n times, each followed by an alias", "one anchored root per document", "distinct names in one flow sequence + aliases"];
pub const ANCHOR_COUNTS: [usize; 12] = [1, 2, 127, 128, 255, 256, 257, 32767, 32768, 65535, 65536, 65537];
pub fn anchors_text(shape: usize, n: usize) -> String {
    let mut s = String::new();
    match shape {
        0 => {
            for k in 0..n {
                s.push_str(&format!("- &a{k} x\n"));
            }
            s.push_str(&format!("- *a{}\n- *a0\n", n - 1));
        }
        1 => {
            for _ in 0..n {
                s.push_str("- &a x\n- *a\n");
            }
        }
        2 => {
            for _ in 0..n {
                s.push_str("--- &a x\n");
            }
            s.push_str("--- [&b y, *b]\n");
        }
        _ => {
            s.push('[');
            for k in 0..n {
                s.push_str(&format!("&a{k} x, "));
            }
            s.push_str(&format!("*a{}, *a0]\n", n - 1));
        }
    }
    s
}

pub fn check(tier: Tier) -> i32 {
    let mut rep = Report::new("C02", tier, "exploration");
    rep.rule = "every string of the listed scopes (all strings up to length N over each alphabet, all chunk sequences up to K, the yaml-test-suite inputs and, in the thorough tier, their one-edit neighbourhood) is parsed with {StrInput, BufferedInput, Gen(8)} x {iterator, push}; the delivered events are fed to an independent push-down recogniser of the event grammar with anchor-id discipline. Additionally streams with 1 .. 2*10^5 anchors in four shapes (counts around 2^7, 2^8, 2^15, 2^16, 2^17). Non-trivial: the parse delivers at least one collection event; distinct: distinct event-kind sentences.".into();
    rep.assumptions = vec!["inputs outside the stated alphabets/lengths are not covered".into()];
    let plan = plan(tier, 6, 8, 3, 4);
    rep.mandatory_scopes = plan.spaces.len();
    let budget = Budget::new(wall_cap(tier));
    run_plan(&mut rep, &plan, &budget, |s, acc| c02_eval(s, acc));
    run_long(&mut rep, tier, &budget, |s, acc| c02_eval(s, acc));
    // many anchors
    let extra: &[usize] = if tier == Tier::Quick { &[70_000] } else { &[70_000, 131_071, 131_072, 131_073, 200_000] };
    let jobs: Vec<(usize, usize)> = (0..ANCHOR_SHAPES.len()).flat_map(|sh| ANCHOR_COUNTS.iter().chain(extra.iter()).map(move |&n| (sh, n))).collect();
    let (acc, done) = par_blocks(jobs.len() as u64, &budget, |b, acc| {
        let (sh, n) = jobs[b as usize];
        let mut a = Acc::default();
        c02_eval(&anchors_text(sh, n), &mut a);
        // a violation of a generated stream is recorded by generator, not by its (huge) text
        for (_, (_, v)) in a.viols.iter_mut() {
            v.case = json!({"kind": "anchors", "shape": sh, "count": n});
        }
        a.samples.clear();
        a.sample(json!({"anchors": ANCHOR_SHAPES[sh], "count": n}));
        acc.merge(a);
    });
    let n = acc.evals;
    rep.acc.merge(acc);
    rep.scope(&format!("streams with 1 .. {} anchors ({} shapes x {} counts)", extra.last().unwrap(), ANCHOR_SHAPES.len(), ANCHOR_COUNTS.len() + extra.len()), n, done == jobs.len() as u64);
    rep.finish()
}
pub fn replay(case: &Value) -> Result<Acc, String> {
    if case["kind"] == "anchors" {
        let mut acc = Acc::default();
        c02_eval(&anchors_text(case["shape"].as_u64().unwrap_or(0) as usize, case["count"].as_u64().unwrap_or(1) as usize), &mut acc);
        return Ok(acc);
    }
    replay_with(case, |s, acc| c02_eval(s, acc))
}
