//! C03 — block and flow structure parses to the node tree the document denotes
//! (engine E2: exhaustive abstract trees x deviation-bounded layout choices).
use crate::engine::{explore, par_blocks, Budget, Ch};
use crate::models::render::*;
use crate::props::sweep::wall_cap;
use crate::report::{h64, Acc, Report, Tier, Violation};
use crate::scopes::load_suite;
use crate::subject::*;
use saphyr_parser::ScalarStyle;
use serde_json::{json, Value};
use std::collections::HashMap;

/// Actual events in the model's vocabulary; anchors renumbered by first appearance.
pub fn actual_events(o: &Obs) -> Vec<E> {
    let mut map: HashMap<usize, usize> = HashMap::new();
    let mut next = 0usize;
    let mut def = |a: usize, map: &mut HashMap<usize, usize>| -> usize {
        if a == 0 {
            0
        } else {
            next += 1;
            map.insert(a, next);
            next
        }
    };
    let tg = |t: &OTag| t.as_ref().map(|t| format!("{}{}", t.0, t.1)).unwrap_or_default();
    let mut v = vec![];
    for (e, _) in &o.evs {
        v.push(match e {
            Ev::SS => E::SS,
            Ev::SE => E::SE,
            Ev::DS(_) => E::DS,
            Ev::DE => E::DE,
            Ev::SeqS(a, t) => E::Seq(def(*a, &mut map), tg(t)),
            Ev::SeqE => E::SeqE,
            Ev::MapS(a, t) => E::Map(def(*a, &mut map), tg(t)),
            Ev::MapE => E::MapE,
            Ev::Al(a) => E::Al(map.get(a).copied().unwrap_or(usize::MAX)),
            Ev::Sc(val, st, a, t) => {
                let stn = match st {
                    ScalarStyle::Plain => 0,
                    ScalarStyle::SingleQuoted => 1,
                    ScalarStyle::DoubleQuoted => 2,
                    ScalarStyle::Literal => 3,
                    ScalarStyle::Folded => 4,
                };
                let a = def(*a, &mut map);
                if stn == 0 && (val == "~" || val.is_empty()) {
                    E::Sc(None, 0, a, tg(t))
                } else {
                    E::Sc(Some(val.clone()), stn, a, tg(t))
                }
            }
            Ev::Nothing => continue,
        });
    }
    v
}

fn tree_json(t: &T) -> Value {
    let mut v = match &t.n {
        N::Null => json!({"null": true}),
        N::Sc(s, st) => json!({"scalar": s, "style": st}),
        N::Alias(i) => json!({"alias": i}),
        N::Seq(k, f) => json!({"seq": k.iter().map(tree_json).collect::<Vec<_>>(), "flow": f}),
        N::Map(p, f) => json!({"map": p.iter().map(|(a, b)| json!([tree_json(a), tree_json(b)])).collect::<Vec<_>>(), "flow": f}),
    };
    if let Some(a) = t.anchor {
        v["anchor"] = json!(a);
    }
    if let Some(g) = t.tag {
        v["tag"] = json!(g);
    }
    v
}
pub fn tree_parse(v: &Value) -> Result<T, String> {
    let n = if v.get("null").is_some() {
        N::Null
    } else if let Some(s) = v.get("scalar") {
        N::Sc(s.as_str().unwrap_or("").into(), v["style"].as_u64().unwrap_or(0) as u8)
    } else if let Some(a) = v.get("alias") {
        N::Alias(a.as_u64().unwrap_or(0) as usize)
    } else if let Some(k) = v.get("seq") {
        N::Seq(k.as_array().ok_or("seq")?.iter().map(tree_parse).collect::<Result<_, _>>()?, v["flow"].as_bool().unwrap_or(false))
    } else if let Some(p) = v.get("map") {
        let mut pairs = vec![];
        for e in p.as_array().ok_or("map")? {
            pairs.push((tree_parse(&e[0])?, tree_parse(&e[1])?));
        }
        N::Map(pairs, v["flow"].as_bool().unwrap_or(false))
    } else {
        return Err(format!("bad tree {v}"));
    };
    Ok(T { n, anchor: v.get("anchor").and_then(|a| a.as_u64()).map(|a| a as usize), tag: v.get("tag").and_then(|a| a.as_u64()).map(|a| a as u8) })
}
pub fn case_json(ts: &[T], choices: &[u32], text: &str) -> Value {
    json!({"kind": "rendering", "trees": ts.iter().map(tree_json).collect::<Vec<_>>(), "choices": choices, "text": text})
}

fn classify(text: &str, got: &Result<Vec<E>, String>, want: &[E]) -> String {
    let feat = |c: &str| text.contains(c);
    let mut f = vec![];
    for (name, pat) in [("flow-seq", "["), ("flow-map", "{"), ("explicit-key", "? "), ("anchor", "&"), ("alias", "*"), ("tag", "!"), ("literal", "|"), ("comment", "#"), ("quoted", "\""), ("single", "'"), ("doc", "---"), ("docend", "..."), ("directive", "%")] {
        if feat(pat) {
            f.push(name);
        }
    }
    match got {
        Err(e) => format!("rejected err={} features={}", crate::props::sweep::classify_panic(e), f.join("+")),
        Ok(g) => {
            let i = g.iter().zip(want.iter()).position(|(a, b)| a != b).unwrap_or(g.len().min(want.len()));
            let k = |e: Option<&E>| match e {
                None => "end",
                Some(E::Sc(None, ..)) => "null",
                Some(E::Sc(..)) => "scalar",
                Some(E::Al(_)) => "alias",
                Some(E::Seq(..)) => "seq",
                Some(E::Map(..)) => "map",
                Some(E::SeqE) => "seq-end",
                Some(E::MapE) => "map-end",
                Some(E::DS) => "doc",
                Some(E::DE) => "doc-end",
                _ => "stream",
            };
            let same_kind = k(g.get(i)) == k(want.get(i));
            format!("events-differ want={} got={}{} features={}", k(want.get(i)), k(g.get(i)), if same_kind { "(attributes)" } else { "" }, f.join("+"))
        }
    }
}

/// One rendering: parse the text with two back-ends and compare with the denotation.
pub fn eval_rendering(ts: &[T], ch: &mut Ch, acc: &mut Acc) {
    eval_rendering_with(ts, ch, acc, false)
}
pub fn eval_rendering_with(ts: &[T], ch: &mut Ch, acc: &mut Acc, explicit_baseline: bool) {
    let mut r = render_with(ts, ch, explicit_baseline);
    // last choice point: the stream ends without its final line break (not offered when a literal
    // scalar is present, whose clipped tail depends on it)
    fn has_literal(t: &T) -> bool {
        match &t.n {
            N::Sc(_, 3) => true,
            N::Seq(v, _) => v.iter().any(has_literal),
            N::Map(p, _) => p.iter().any(|(k, v)| has_literal(k) || has_literal(v)),
            _ => false,
        }
    }
    if ch.flag() {
        if !r.text.ends_with('\n') || r.docs.iter().any(has_literal) {
            return;
        }
        r.text.pop();
    }
    acc.evals += 1;
    for b in [Backend::Str, Backend::Buf] {
        let got: Result<Vec<E>, String> = match observe(&r.text, b, Api::Iter) {
            Err(m) => Err(format!("panic: {m}")),
            Ok(o) => match &o.err {
                Some(e) => Err(e.info.clone()),
                None => Ok(actual_events(&o)),
            },
        };
        if got.as_ref().ok() != Some(&r.expect) {
            acc.violation(Violation { key: classify(&r.text, &got, &r.expect), expected: format!("{:?}", r.expect), observed: format!("backend={} {:?}", b.name(), got), case: {
                    let mut c = case_json(ts, &ch.taken(), &r.text);
                    c["explicit_baseline"] = json!(explicit_baseline);
                    c
                }, size: r.text.len() });
            break;
        }
    }
    if acc.class(h64(&r.text)) && ch.taken().iter().filter(|c| **c != 0).count() >= 2 && r.text.len() > 12 {
        acc.sample(json!({"text": r.text, "denotes": format!("{:?}", r.docs)}));
    }
}

// ---- suite corpus: compare with the `tree` field (own reader of the suite's event notation) ----

fn unescape_suite(s: &str) -> String {
    let mut out = String::new();
    let mut it = s.chars();
    while let Some(c) = it.next() {
        if c == '\\' {
            match it.next() {
                Some('n') => out.push('\n'),
                Some('t') => out.push('\t'),
                Some('r') => out.push('\r'),
                Some('b') => out.push('\x08'),
                Some('\\') => out.push('\\'),
                Some(o) => {
                    out.push('\\');
                    out.push(o)
                }
                None => out.push('\\'),
            }
        } else {
            out.push(c);
        }
    }
    out
}

/// Parses the suite's tree notation into model events (anchor names numbered by first appearance).
pub fn suite_tree_events(tree: &str) -> Result<Vec<E>, String> {
    let mut names: HashMap<String, usize> = HashMap::new();
    let mut next = 0usize;
    let mut out = vec![];
    for line in tree.split('\n') {
        let l = line.trim_start();
        if l.is_empty() {
            continue;
        }
        let (head, rest) = l.split_at(4.min(l.len()));
        let mut rest = rest.trim_start();
        let mut anchor = 0usize;
        let mut tag = String::new();
        let mut props = |rest: &mut &str, names: &mut HashMap<String, usize>, anchor: &mut usize, tag: &mut String| {
            loop {
                if let Some(r) = rest.strip_prefix('&') {
                    let end = r.find(' ').unwrap_or(r.len());
                    next += 1;
                    names.insert(r[..end].to_string(), next);
                    *anchor = next;
                    *rest = r[end..].trim_start();
                } else if let Some(r) = rest.strip_prefix('<') {
                    let end = r.find('>').unwrap_or(r.len());
                    *tag = r[..end].to_string();
                    *rest = r[(end + 1).min(r.len())..].trim_start();
                } else {
                    break;
                }
            }
        };
        match head {
            "+STR" => out.push(E::SS),
            "-STR" => out.push(E::SE),
            "+DOC" => out.push(E::DS),
            "-DOC" => out.push(E::DE),
            "+SEQ" | "+MAP" => {
                let r2 = rest.strip_prefix("[]").or_else(|| rest.strip_prefix("{}")).unwrap_or(rest);
                rest = r2.trim_start();
                props(&mut rest, &mut names, &mut anchor, &mut tag);
                out.push(if head == "+SEQ" { E::Seq(anchor, tag) } else { E::Map(anchor, tag) });
            }
            "-SEQ" => out.push(E::SeqE),
            "-MAP" => out.push(E::MapE),
            "=ALI" => {
                let name = rest.trim_start_matches('*');
                out.push(E::Al(*names.get(name).ok_or(format!("alias to unknown {name}"))?));
            }
            "=VAL" => {
                props(&mut rest, &mut names, &mut anchor, &mut tag);
                let (st, val) = rest.split_at(1.min(rest.len()));
                let stn = match st {
                    ":" => 0,
                    "'" => 1,
                    "\"" => 2,
                    "|" => 3,
                    ">" => 4,
                    _ => return Err(format!("bad style in {l:?}")),
                };
                let v = unescape_suite(val);
                if stn == 0 && v.is_empty() {
                    out.push(E::Sc(None, 0, anchor, tag));
                } else {
                    out.push(E::Sc(Some(v), stn, anchor, tag));
                }
            }
            _ => return Err(format!("bad tree line {l:?}")),
        }
    }
    Ok(out)
}

pub fn eval_suite_case(name: &str, yaml: &str, tree: &str, acc: &mut Acc) {
    acc.evals += 1;
    let want = match suite_tree_events(tree) {
        Ok(w) => w,
        Err(e) => {
            acc.machinery_errors.push(format!("suite case {name}: {e}"));
            return;
        }
    };
    // normalise the expected side like the actual one: plain "~" is a null
    let want: Vec<E> = want.into_iter().map(|e| match e { E::Sc(Some(v), 0, a, t) if v == "~" => E::Sc(None, 0, a, t), o => o }).collect();
    let got: Result<Vec<E>, String> = match observe(yaml, Backend::Str, Api::Iter) {
        Err(m) => Err(format!("panic: {m}")),
        Ok(o) => match &o.err {
            Some(e) => Err(e.info.clone()),
            None => Ok(actual_events(&o)),
        },
    };
    if got.as_ref().ok() != Some(&want) {
        acc.violation(Violation { key: format!("suite-case {name}"), expected: format!("{want:?}"), observed: format!("{got:?}"), case: json!({"kind": "suite", "name": name, "text": yaml, "tree": tree}), size: yaml.len() });
    }
}

pub fn replay(case: &Value) -> Result<Acc, String> {
    let mut acc = Acc::default();
    if case["kind"] == "long-key" {
        let lk = long_key_texts();
        let (text, scalars) = lk.get(case["index"].as_u64().unwrap_or(0) as usize).ok_or("index out of range")?;
        acc.evals += 1;
        for bk in [Backend::Str, Backend::Buf] {
            let got: Option<Vec<String>> = observe(text, bk, Api::Iter).ok().and_then(|o| if o.err.is_some() { None } else { Some(o.evs.iter().filter_map(|e| if let Ev::Sc(v, ..) = &e.0 { Some(v.clone()) } else { None }).collect()) });
            if got.as_ref() != Some(scalars) {
                acc.violation(Violation { key: "long-key".into(), expected: "the key and value scalars".into(), observed: format!("backend={} {:?}", bk.name(), got.map(|v| v.iter().map(|x| x.len()).collect::<Vec<_>>())), case: case.clone(), size: text.len() });
            }
        }
        return Ok(acc);
    }
    if case["kind"] == "pair-seq" {
        let ps = pair_seq_texts();
        let i = case["index"].as_u64().unwrap_or(0);
        let (text, want) = ps.get(i as usize).ok_or("index out of range")?;
        eval_pair_seq(text, want, i, &mut acc);
        return Ok(acc);
    }
    if case["kind"] == "suite" {
        eval_suite_case(case["name"].as_str().unwrap_or(""), case["text"].as_str().unwrap_or(""), case["tree"].as_str().unwrap_or(""), &mut acc);
        return Ok(acc);
    }
    let ts: Vec<T> = case["trees"].as_array().ok_or("no trees")?.iter().map(tree_parse).collect::<Result<_, _>>()?;
    let choices: Vec<u32> = case["choices"].as_array().ok_or("no choices")?.iter().map(|c| c.as_u64().unwrap_or(0) as u32).collect();
    let mut ch = Ch::new(&choices);
    eval_rendering_with(&ts, &mut ch, &mut acc, case["explicit_baseline"].as_bool().unwrap_or(false));
    Ok(acc)
}

/// Chains of `d` nested collections: `b` block levels (pattern bp) around `d - b` flow levels
/// (pattern fp); every level carries a sibling so that indentation and separators matter.
pub fn spine_trees(dmin: usize, dmax: usize) -> Vec<T> {
    let sc = |t: &str| T::plain(N::Sc(t.into(), 0));
    let mut out = vec![];
    for d in dmin..=dmax {
        for b in 0..=d {
            for bp in 0..4usize {
                if b == 0 && bp > 0 {
                    continue;
                }
                for fp in 0..3usize {
                    if b == d && fp > 0 {
                        continue;
                    }
                    for leaf in 0..2 {
                        // an omitted node cannot be an entry of a flow sequence
                        let innermost_flow_seq = b < d && (fp == 0 || (fp == 2 && (d - 1 - b) % 2 == 0));
                        if leaf == 1 && innermost_flow_seq {
                            continue;
                        }
                        let mut t = if leaf == 0 { sc("a") } else { T::plain(N::Null) };
                        for lvl in (0..d).rev() {
                            let flow = lvl >= b;
                            let kind = if flow {
                                match fp {
                                    0 => 0,
                                    1 => 1,
                                    _ => (lvl - b) % 2,
                                }
                            } else {
                                match bp {
                                    0 => 0,
                                    1 => 1,
                                    2 => lvl % 2,
                                    _ => 2,
                                }
                            };
                            t = match kind {
                                0 => T::plain(N::Seq(vec![t, sc("b")], flow)),
                                1 => T::plain(N::Map(vec![(sc("a"), t), (sc("b"), sc("b"))], flow)),
                                _ => T::plain(N::Map(vec![(t, sc("b"))], flow)),
                            };
                        }
                        out.push(t);
                    }
                }
            }
        }
    }
    out
}

/// (text, the scalar values it must deliver in order)
/// Flow sequences whose entries are single pairs: 1..3 entries, every entry in every spelling
/// (braces or brace-less, implicit or explicit `?`, empty key or empty value), three separators, three
/// contexts. The expected value is the event sentence in a short notation (`=~` is an omitted node).
pub fn pair_seq_texts() -> Vec<(String, String)> {
    // (spelling, key, value)
    let mut forms: Vec<(String, &str, &str)> = vec![];
    for (k, v) in [("a", "b"), ("", "b"), ("a", "")] {
        let kd = if k.is_empty() { "~" } else { k };
        let vd = if v.is_empty() { "~" } else { v };
        let imp = match (k.is_empty(), v.is_empty()) { (true, _) => format!(": {v}"), (_, true) => format!("{k}: "), _ => format!("{k}: {v}") };
        let mut exp = vec![match (k.is_empty(), v.is_empty()) { (true, _) => format!("? : {v}"), (_, true) => format!("? {k} : "), _ => format!("? {k} : {v}") }];
        if v.is_empty() {
            exp.push(format!("? {k}"));
        }
        forms.push((format!("{{{imp}}}"), kd, vd));
        forms.push((imp.clone(), kd, vd));
        for e in exp {
            forms.push((format!("{{{e}}}"), kd, vd));
            forms.push((e, kd, vd));
        }
    }
    let mut out = vec![];
    let nf = forms.len();
    for len in 1..=3usize {
        for code in 0..nf.pow(len as u32) {
            let mut c = code;
            let mut items = vec![];
            let mut want = String::from("+S");
            for _ in 0..len {
                let f = &forms[c % nf];
                c /= nf;
                items.push(f.0.clone());
                want.push_str(&format!(" +M ={} ={} -M", f.1, f.2));
            }
            want.push_str(" -S");
            for (sep, pad) in [(", ", " "), (" , ", ""), (",\n  ", " ")] {
                let body = items.join(sep);
                let body = body.trim_end();
                let seq = format!("[{pad}{body}{pad}]");
                out.push((format!("{seq}\n"), want.clone()));
                out.push((format!("- {seq}\n"), format!("+S {want} -S")));
                out.push((format!("{{x: {seq}, y: z}}\n"), format!("+M =x {want} =y =z -M")));
            }
        }
    }
    out
}
fn eval_pair_seq(text: &str, want: &str, index: u64, acc: &mut Acc) {
    acc.evals += 1;
    for bk in [Backend::Str, Backend::Buf] {
        let got: Result<String, String> = match observe(text, bk, Api::Iter) {
            Err(m) => Err(format!("panic: {m}")),
            Ok(o) => match &o.err {
                Some(e) => Err(e.info.clone()),
                None => Ok(o.evs.iter().filter_map(|e| match &e.0 { Ev::Sc(v, ..) => Some(format!("={v}")), Ev::SeqS(..) => Some("+S".into()), Ev::SeqE => Some("-S".into()), Ev::MapS(..) => Some("+M".into()), Ev::MapE => Some("-M".into()), Ev::Al(_) => Some("*".into()), _ => None }).collect::<Vec<_>>().join(" ")),
            },
        };
        if got.as_deref().ok() != Some(want) {
            let what = if got.is_err() { "rejected" } else { "events-differ" };
            acc.violation(Violation { key: format!("pair-sequence {what}"), expected: want.to_string(), observed: format!("backend={} {}", bk.name(), match &got { Ok(v) => v.clone(), Err(e) => e.clone() }), case: json!({"kind": "pair-seq", "index": index, "text": text}), size: text.len() });
            break;
        }
    }
    acc.class(h64(text));
}
pub fn long_key_texts() -> Vec<(String, Vec<String>)> {
    let mut v = vec![];
    let s = |x: &str| x.to_string();
    for n in [1usize, 2, 127, 128, 129, 512, 1021, 1022, 1023, 1024] {
        let k = "k".repeat(n);
        v.push((format!("{k}: v\n"), vec![k.clone(), s("v")]));
        v.push((format!("a:\n  {k}: v\n"), vec![s("a"), k.clone(), s("v")]));
        v.push((format!("- {k}: v\n"), vec![k.clone(), s("v")]));
        v.push((format!("{k}:\n  - v\n"), vec![k.clone(), s("v")]));
        v.push((format!("x: y\n{k}: v\n"), vec![s("x"), s("y"), k.clone(), s("v")]));
        if n >= 3 {
            // quoted keys: the quotes count
            let q = "k".repeat(n - 2);
            v.push((format!("\"{q}\": v\n"), vec![q.clone(), s("v")]));
            v.push((format!("'{q}': v\n"), vec![q.clone(), s("v")]));
            // a key made of words
            let w = format!("{} z", "k".repeat(n - 2));
            v.push((format!("{w}: v\n"), vec![w.clone(), s("v")]));
        }
    }
    for n in [1024usize, 1025, 1100, 5000] {
        let k = "k".repeat(n);
        v.push((format!("{{{k}: v}}\n"), vec![k.clone(), s("v")]));
        v.push((format!("[{k}: v]\n"), vec![k.clone(), s("v")]));
        v.push((format!("? {k}\n: v\n"), vec![k.clone(), s("v")]));
        v.push((format!("{{\"{k}\": v}}\n"), vec![k.clone(), s("v")]));
    }
    v
}

pub fn bounds(tier: Tier) -> Vec<(usize, usize)> {
    // (max nodes, deviation budget)
    if let Ok(v) = std::env::var("VP_C03_BOUNDS") {
        return v.split(',').filter_map(|x| x.split_once(':')).filter_map(|(a, b)| Some((a.parse().ok()?, b.parse().ok()?))).collect();
    }
    match tier {
        Tier::Quick => vec![(3, 3), (4, 3), (5, 1), (6, 1)],
        Tier::Thorough => vec![(4, 4), (5, 3), (6, 2), (7, 1)],
    }
}

pub fn check(tier: Tier) -> i32 {
    let mut rep = Report::new("C03", tier, "model_checking");
    rep.rule = "abstract values: every stream of one document (and two documents for trees of <= 2 nodes) whose root is any tree of <= s nodes over {scalar a/b, null, empty and non-empty block/flow sequences and mappings}; a spec-derived renderer turns each into text, asking a choice source at every point where YAML leaves the layout free (document markers/directive/comments, entry placement, compact forms, indentation widths, implicit/explicit keys, flow separators/padding/line breaks/trailing commas/single-pair and key-only forms/adjacent values, blank and comment lines) and for every decoration (scalar style incl. literal, anchor, tag, property order, alias to an earlier anchor); ALL choice vectors with at most d non-default choices are explored (iterative deviation bounding). Oracle: the events from StrInput and BufferedInput equal the denotation (sentence, scalar text and style, resolved tags, anchor link structure, nulls for omitted nodes). Plus the 308 non-error yaml-test-suite cases against their `tree` field. Non-trivial: every rendering; distinct: distinct rendered texts.".into();
    rep.assumptions = vec!["the renderer under-approximates the legal language: it only generates layouts whose denotation is unambiguous (DESIGN §4 C03 rules 1-10)".into(), "DocumentStart(explicit), collection flow/block style, anchor names and numeric anchor ids are not compared".into()];
    let budget = Budget::new(wall_cap(tier));
    rep.mandatory_scopes = 1;
    let mut states = 0u64;
    let mut transitions = 0u64;
    for (s, d) in bounds(tier) {
        let trees = all_trees(s);
        let small: Vec<T> = all_trees(2);
        let (acc, done) = par_blocks(trees.len() as u64, &budget, |b, acc| {
            let t = &trees[b as usize];
            let (c, tr) = explore(d, &mut |ch: &mut Ch| eval_rendering(std::slice::from_ref(t), ch, acc));
            acc.count("choice_vectors", c);
            acc.count("choice_edges", tr);
            if t.size() <= 2 {
                for t2 in &small {
                    let pair = [t.clone(), t2.clone()];
                    let (c, tr) = explore(d.min(2), &mut |ch: &mut Ch| eval_rendering(&pair, ch, acc));
                    acc.count("choice_vectors", c);
                    acc.count("choice_edges", tr);
                }
            }
        });
        let n = acc.evals;
        states += acc.counters.get("choice_vectors").copied().unwrap_or(0);
        transitions += acc.counters.get("choice_edges").copied().unwrap_or(0);
        rep.acc.merge(acc);
        rep.scope(&format!("trees <= {s} nodes ({}) x <= {d} deviations", trees.len()), n, done == trees.len() as u64);
    }
    // deeper flow nesting over a small leaf alphabet
    let (fmin, fmax, fd) = if tier == Tier::Quick { (7usize, 8usize, 1usize) } else { (6, 9, 2) };
    let ftrees = all_flow_trees(fmin, fmax);
    let (acc, done) = par_blocks(ftrees.len() as u64, &budget, |b, acc| {
        let t = &ftrees[b as usize];
        let d = if t.size() >= 9 { 1 } else { fd };
        let (c, tr) = explore(d, &mut |ch: &mut Ch| eval_rendering(std::slice::from_ref(t), ch, acc));
        acc.count("choice_vectors", c);
        acc.count("choice_edges", tr);
    });
    let n = acc.evals;
    states += acc.counters.get("choice_vectors").copied().unwrap_or(0);
    transitions += acc.counters.get("choice_edges").copied().unwrap_or(0);
    rep.acc.merge(acc);
    rep.scope(&format!("flow-only trees of {fmin}..{fmax} nodes ({}) x <= {fd} deviations", ftrees.len()), n, done == ftrees.len() as u64);
    // block mappings written in the explicit form by default: entries `? k` / `: v`, with the usual
    // deviations (omitted ':', implicit form for single entries, placement, ...) around that baseline
    let (emax, edev) = if tier == Tier::Quick { (5usize, 2usize) } else { (6, 3) };
    fn only_block_maps(t: &T) -> bool {
        match &t.n {
            N::Map(p, false) => p.iter().all(|(k, v)| only_block_maps(k) && only_block_maps(v)),
            N::Seq(..) | N::Map(..) => false,
            _ => true,
        }
    }
    let etrees: Vec<T> = all_trees(emax).into_iter().filter(|t| matches!(&t.n, N::Map(p, false) if !p.is_empty()) && only_block_maps(t)).collect();
    let (acc, done) = par_blocks(etrees.len() as u64, &budget, |b, acc| {
        let (c, tr) = explore(edev, &mut |ch: &mut Ch| eval_rendering_with(std::slice::from_ref(&etrees[b as usize]), ch, acc, true));
        acc.count("choice_vectors", c);
        acc.count("choice_edges", tr);
    });
    let n = acc.evals;
    states += acc.counters.get("choice_vectors").copied().unwrap_or(0);
    transitions += acc.counters.get("choice_edges").copied().unwrap_or(0);
    rep.acc.merge(acc);
    rep.scope(&format!("block mappings of <= {emax} nodes with the explicit entry form as the baseline ({}) x <= {edev} deviations", etrees.len()), n, done == etrees.len() as u64);
    // implicit keys at the 1024-character limit (a key of exactly 1024 characters is legal), and keys
    // beyond it where no limit applies (flow collections, explicit keys)
    let lk = long_key_texts();
    let (acc, done) = par_blocks(lk.len() as u64, &budget, |b, acc| {
        let (text, scalars) = &lk[b as usize];
        acc.evals += 1;
        for bk in [Backend::Str, Backend::Buf] {
            let got: Result<Vec<String>, String> = match observe(text, bk, Api::Iter) {
                Err(m) => Err(format!("panic: {m}")),
                Ok(o) => match &o.err {
                    Some(e) => Err(e.info.clone()),
                    None => Ok(o.evs.iter().filter_map(|e| if let Ev::Sc(v, ..) = &e.0 { Some(v.clone()) } else { None }).collect()),
                },
            };
            if got.as_ref().ok() != Some(scalars) {
                let what = if got.is_err() { "rejected" } else { "scalars-differ" };
                acc.violation(Violation { key: format!("long-key {what}"), expected: format!("scalars of lengths {:?}", scalars.iter().map(|x| x.len()).collect::<Vec<_>>()), observed: format!("backend={} {}", bk.name(), match &got { Ok(v) => format!("scalars of lengths {:?}", v.iter().map(|x| x.len()).collect::<Vec<_>>()), Err(e) => e.clone() }), case: json!({"kind": "long-key", "index": b}), size: text.len() });
                break;
            }
        }
        acc.class(h64(text));
    });
    let n = acc.evals;
    rep.acc.merge(acc);
    rep.scope(&format!("implicit keys of 1 .. 1024 characters (block, nested, quoted) and longer keys in flow / explicit form ({} texts)", lk.len()), n, done == lk.len() as u64);
    // flow sequences of single pairs, every spelling of every entry (more simultaneous deviations than the
    // budgeted exploration reaches: `[ ? a : b, : d ]` needs four on a seven-node tree)
    let ps = pair_seq_texts();
    let (acc, done) = par_blocks(ps.len() as u64, &budget, |b, acc| {
        let (text, want) = &ps[b as usize];
        eval_pair_seq(text, want, b, acc);
    });
    let n = acc.evals;
    rep.acc.merge(acc);
    rep.scope(&format!("flow sequences of 1..3 single-pair entries, each braced or brace-less, implicit or explicit, with an empty key or value, 3 separators x 3 contexts ({} texts)", ps.len()), n, done == ps.len() as u64);
    // deep nesting chains ("spines"): block levels outside, flow levels inside
    let (dmin, dmax) = if tier == Tier::Quick { (7usize, 11usize) } else { (7, 15) };
    let strees = spine_trees(dmin, dmax);
    let (acc, done) = par_blocks(strees.len() as u64, &budget, |b, acc| {
        let (c, tr) = explore(1, &mut |ch: &mut Ch| eval_rendering(std::slice::from_ref(&strees[b as usize]), ch, acc));
        acc.count("choice_vectors", c);
        acc.count("choice_edges", tr);
    });
    let n = acc.evals;
    states += acc.counters.get("choice_vectors").copied().unwrap_or(0);
    transitions += acc.counters.get("choice_edges").copied().unwrap_or(0);
    rep.acc.merge(acc);
    rep.scope(&format!("nesting chains of depth {dmin}..{dmax}: block levels (sequence / mapping value / alternating / complex key) around flow levels (sequence / mapping / alternating), every split point, 2 leaves ({}) x <= 1 deviation", strees.len()), n, done == strees.len() as u64);
    match load_suite() {
        Err(e) => rep.acc.machinery_errors.push(e),
        Ok(cases) => {
            let cases: Vec<_> = cases.into_iter().filter(|c| !c.fail && c.tree.is_some()).collect();
            let (acc, done) = par_blocks(cases.len() as u64, &budget, |b, acc| {
                let c = &cases[b as usize];
                eval_suite_case(&c.name, &c.yaml, c.tree.as_ref().unwrap(), acc);
            });
            let n = acc.evals;
            rep.acc.merge(acc);
            rep.scope("suite non-error cases vs tree field", n, done == cases.len() as u64);
        }
    }
    rep.mc = Some((states.max(1), transitions.max(1), rep.acc.evals * 2));
    rep.extra.insert("explanation".into(), json!("states = choice vectors (renderings) explored; transitions = edges of the choice tree (one deviation added); traces_validated = parses of rendered text on the real parser (2 back-ends) compared with the denotation"));
    rep.finish()
}
