//! C04 — plain and quoted scalars yield exactly the text YAML assigns to them.
use crate::engine::{explore, par_blocks, Budget, Ch, StrSpace};
use crate::models::scalar_text::*;
use crate::props::sweep::wall_cap;
use crate::report::{h64, Acc, Report, Tier, Violation};
use crate::subject::*;
use saphyr_parser::ScalarStyle;
use serde_json::{json, Value};

pub const SIGMA_TXT: &str = "a \n\t:#'\"\\-é[";

fn style_of(st: u8) -> ScalarStyle {
    match st {
        0 => ScalarStyle::Plain,
        1 => ScalarStyle::SingleQuoted,
        _ => ScalarStyle::DoubleQuoted,
    }
}
fn case_json(target: &str, style: u8, ctx: u8, choices: &[u32], text: &str) -> Value {
    json!({"kind": "presentation", "target": target, "target_codepoints": target.chars().map(|c| c as u32).collect::<Vec<_>>(), "style": style, "ctx": ctx, "choices": choices, "text": text})
}

fn scalar_of(text: &str, b: Backend, idx: usize, total: usize) -> Result<(String, ScalarStyle), String> {
    let o = observe(text, b, Api::Iter).map_err(|m| format!("panic: {m}"))?;
    if let Some(e) = &o.err {
        return Err(format!("error: {}", e.info));
    }
    let sc: Vec<(&String, ScalarStyle)> = o.evs.iter().filter_map(|e| if let Ev::Sc(v, st, _, _) = &e.0 { Some((v, *st)) } else { None }).collect();
    if sc.len() != total {
        return Err(format!("structure: {} scalars instead of {}: {}", sc.len(), total, o.kinds()));
    }
    Ok((sc[idx].0.clone(), sc[idx].1))
}

pub fn eval_presentation(t: &[char], style: u8, ctx: u8, ch: &mut Ch, acc: &mut Acc) {
    let Some((text, idx, total)) = render(t, style, ctx, ch) else { return };
    // last choice point: how the line breaks of the presentation are written (LF, CRLF, CR)
    let text = match ch.pick(3) {
        0 => text,
        k => {
            if !text.contains('\n') {
                return;
            }
            text.replace('\n', if k == 1 { "\r\n" } else { "\r" })
        }
    };
    // ... and whether the stream keeps its final line break
    let text = if ch.flag() {
        match text.strip_suffix("\r\n").or_else(|| text.strip_suffix('\n')).or_else(|| text.strip_suffix('\r')) {
            Some(t) => t.to_string(),
            None => return,
        }
    } else {
        text
    };
    acc.evals += 1;
    let target: String = t.iter().collect();
    let want = (target.clone(), style_of(style));
    for b in [Backend::Str, Backend::Buf] {
        let got = scalar_of(&text, b, idx, total);
        if got.as_ref().ok() != Some(&want) {
            let what = match &got {
                Err(e) if e.starts_with("error") => format!("rejected:{}", crate::props::sweep::classify_panic(e)),
                Err(e) if e.starts_with("panic") => "panic".into(),
                Err(_) => "structure".into(),
                Ok((v, st)) if *st != want.1 => format!("style:{st:?}"),
                Ok((v, _)) => {
                    let _ = v;
                    "value".into()
                }
            };
            acc.violation(Violation { key: format!("scalar style={} ctx={ctx} what={what}", ["plain", "single", "double"][style as usize]), expected: format!("{want:?}"), observed: format!("backend={} {got:?}", b.name()), case: case_json(&target, style, ctx, &ch.taken(), &text), size: text.len() });
            break;
        }
    }
    let devs = ch.log.iter().filter(|c| c.1 != 0).count();
    if acc.class(h64(&text)) && devs >= 2 && t.len() >= 3 {
        acc.sample(json!({"target": target, "text": text}));
    }
}

/// Fixed tables: named escapes, all \xHH, boundary \u / \U code points.
fn escape_table() -> Vec<(String, Option<String>)> {
    let mut v: Vec<(String, Option<String>)> = vec![];
    for (e, c) in [("0", '\0'), ("a", '\x07'), ("b", '\x08'), ("t", '\t'), ("\t", '\t'), ("n", '\n'), ("v", '\x0b'), ("f", '\x0c'), ("r", '\r'), ("e", '\x1b'), (" ", ' '), ("\"", '"'), ("/", '/'), ("\\", '\\'), ("N", '\u{85}'), ("_", '\u{a0}'), ("L", '\u{2028}'), ("P", '\u{2029}')] {
        v.push((format!("\\{e}"), Some(c.to_string())));
    }
    for b in 0..=255u32 {
        v.push((format!("\\x{b:02x}"), Some(char::from_u32(b).unwrap().to_string())));
        v.push((format!("\\x{b:02X}"), Some(char::from_u32(b).unwrap().to_string())));
    }
    for cp in [0u32, 0x7f, 0x85, 0xa0, 0xff, 0x100, 0x2028, 0x2029, 0xfeff, 0xd7ff, 0xe000, 0xfffd, 0xffff] {
        v.push((format!("\\u{cp:04x}"), Some(char::from_u32(cp).unwrap().to_string())));
        v.push((format!("\\U{cp:08X}"), Some(char::from_u32(cp).unwrap().to_string())));
    }
    for cp in [0x10000u32, 0x1f600, 0x10ffff] {
        v.push((format!("\\U{cp:08x}"), Some(char::from_u32(cp).unwrap().to_string())));
    }
    // invalid: surrogates and beyond the range are errors; unknown letters are errors
    for cp in [0xd800u32, 0xdbff, 0xdc00, 0xdfff] {
        v.push((format!("\\u{cp:04x}"), None));
        v.push((format!("\\U{cp:08x}"), None));
    }
    for cp in [0x110000u32, 0xffffffff] {
        v.push((format!("\\U{cp:08x}"), None));
    }
    for bad in ["\\q", "\\1", "\\x4", "\\x4g", "\\u004", "\\u00g0", "\\U0000004", "\\c", "\\'"] {
        v.push((bad.to_string(), None));
    }
    // digits and letters that are not ASCII hex digits: Unicode decimal digits of other scripts,
    // fullwidth forms, superscripts and fractions (`char::is_numeric` / `is_alphanumeric` say yes)
    for d in ['\u{663}', '\u{6f3}', '\u{966}', '\u{ff13}', '\u{ff21}', '\u{ff46}', '\u{b2}', '\u{bd}', '\u{2163}', '\u{1d7d8}', '\u{430}', '\u{3b1}'] {
        v.push((format!("\\x{d}{d}"), None));
        v.push((format!("\\x4{d}"), None));
        v.push((format!("\\x{d}1"), None));
        v.push((format!("\\u{d}{d}{d}{d}"), None));
        v.push((format!("\\u004{d}"), None));
        v.push((format!("\\U{d}{d}{d}{d}{d}{d}{d}{d}"), None));
        v.push((format!("\\U0000004{d}"), None));
    }
    // characters whose low byte / low bits look like a valid escape letter are not escapes
    for e in "0abtnvfre \"/\\N_LPxuU".chars() {
        for off in [0x100u32, 0x200, 0x2000, 0x10000] {
            if let Some(c) = char::from_u32(e as u32 + off) {
                v.push((format!("\\{c}41414141"), None));
            }
        }
    }
    v
}

fn eval_escape(esc: &str, want: &Option<String>, acc: &mut Acc) {
    for (pre, post, idx, total) in [("", "\n", 0usize, 1usize), ("k: ", "\n", 1, 2), ("[", ", z]\n", 0, 2), ("#aaaaaaaaaaa\n- ", "\n", 0, 1), ("#aaaaaaaaaaaa\n- ", "\n", 0, 1)] {
        for (l, r) in [("", ""), ("a", "z")] {
            acc.evals += 1;
            let text = format!("{pre}\"{l}{esc}{r}\"{post}");
            for b in [Backend::Str, Backend::Buf] {
                let got = scalar_of(&text, b, idx, total);
                let ok = match (want, &got) {
                    (Some(w), Ok((v, ScalarStyle::DoubleQuoted))) => *v == format!("{l}{w}{r}"),
                    (None, Err(e)) => e.starts_with("error"),
                    _ => false,
                };
                if !ok {
                    let kind = if esc.starts_with("\\x") { "x" } else if esc.starts_with("\\u") { "u" } else if esc.starts_with("\\U") { "U" } else { "named" };
                    acc.violation(Violation { key: format!("escape kind={kind} valid={}", want.is_some()), expected: format!("{:?}", want.as_ref().map(|w| format!("{l}{w}{r}"))), observed: format!("backend={} {got:?}", b.name()), case: json!({"kind": "escape", "escape": esc, "text": text, "want": want}), size: text.len() });
                }
            }
        }
    }
    acc.class(h64(esc));
}

pub fn replay(case: &Value) -> Result<Acc, String> {
    let mut acc = Acc::default();
    if case["kind"] == "escape" {
        let want = case["want"].as_str().map(|s| s.to_string());
        eval_escape(case["escape"].as_str().ok_or("no escape")?, &want, &mut acc);
        return Ok(acc);
    }
    let t: Vec<char> = case["target_codepoints"].as_array().ok_or("no target")?.iter().filter_map(|c| char::from_u32(c.as_u64().unwrap_or(0) as u32)).collect();
    let choices: Vec<u32> = case["choices"].as_array().ok_or("no choices")?.iter().map(|c| c.as_u64().unwrap_or(0) as u32).collect();
    let mut ch = Ch::new(&choices);
    eval_presentation(&t, case["style"].as_u64().unwrap_or(0) as u8, case["ctx"].as_u64().unwrap_or(0) as u8, &mut ch, &mut acc);
    Ok(acc)
}

pub fn check(tier: Tier) -> i32 {
    let mut rep = Report::new("C04", tier, "model_checking");
    rep.rule = "abstract values: every target string up to length L over {a, space, LF, tab, ':', '#', ''', '\"', '\\', '-', 'é', '['} plus one-character targets for boundary code points; for each style (plain, single, double) and each of 8 syntactic contexts the presentation model enumerates ALL choice vectors with at most d deviations (per-character literal / \\x / \\u / \\U, tab literal or \\t, where to fold a space or a run of line feeds, continuation indentation, trailing blank padding before a fold, escaped line breaks, a comment line in front that makes the scalar straddle the 16-character input buffer); the real parser (StrInput and BufferedInput) must report Scalar(value == target, style). Plus fixed tables: every named escape, all 256 \\xHH in both cases, boundary \\u/\\U code points, and invalid escapes (surrogates, out of range, unknown, short) which must be errors. The last two choice points write the line breaks of the presentation as LF, CRLF or CR and drop the final line break of the stream. Non-trivial: every representable presentation; distinct: distinct rendered texts.".into();
    rep.assumptions = vec!["targets that are not representable in a style/context (by the ns-plain / nb-single-char productions) are skipped by the model".into(), "an escaped line break is never placed directly before a fold".into()];
    let budget = Budget::new(wall_cap(tier));
    rep.mandatory_scopes = 2;
    let (l, d) = match tier {
        Tier::Quick => (4usize, 2usize),
        Tier::Thorough => (5, 3),
    };
    let sp = StrSpace::chars("targets", SIGMA_TXT, l);
    let mut targets: Vec<Vec<char>> = (0..sp.len()).map(|i| sp.string_at(i).chars().collect()).collect();
    for cp in [0x7fu32, 0x85, 0xa0, 0x2028, 0x2029, 0xd7ff, 0xe000, 0xfffd, 0x10000, 0x1f600, 0x10ffff, 0x1, 0x1b] {
        targets.push(vec![char::from_u32(cp).unwrap()]);
        targets.push(vec!['a', char::from_u32(cp).unwrap(), 'b']);
    }
    // indicator-like words (longer than L): document-marker look-alikes, block indicators, comments
    for w in ["---", "...", "--- a", "... a", "a ---", "a ...", "a --- b", "a ... b", "a\n---", "a\n... b", "---a", "...a", "- a", "a - b", "a ? b", "? a", "a #b", "a# b", "a:b", "a :b", "a\n- b", "a\n? b", "a\n:b", "-a", "?a", ":a", "a\n\n--- b", "%a", "a %b", "a\n%b", "a & b", "a\n&b", "a\n*b", "a\n!b", "a\n|", "a\n> b", "a\n@b", "a\n`b", "a\n\"b", "a\n'b", "a\n[b", "a\n]b", "a\n{b", "a\n,b"] {
        targets.push(w.chars().collect());
    }
    let (acc, done) = par_blocks(targets.len() as u64, &budget, |b, acc| {
        let t = &targets[b as usize];
        for style in 0..3u8 {
            for ctx in 0..8u8 {
                // thorough: the full deviation budget for targets up to 4 characters, one less for longer ones
                let dd = if tier == Tier::Thorough && t.len() >= 5 { d - 1 } else { d };
                let (c, tr) = explore(dd, &mut |ch: &mut Ch| eval_presentation(t, style, ctx, ch, acc));
                acc.count("choice_vectors", c);
                acc.count("choice_edges", tr);
            }
        }
    });
    let n = acc.evals;
    let states = acc.counters.get("choice_vectors").copied().unwrap_or(0);
    let trans = acc.counters.get("choice_edges").copied().unwrap_or(0);
    rep.acc.merge(acc);
    rep.scope(&format!("targets <= {l} ({}) x 3 styles x 8 contexts x <= {d} deviations{}", targets.len(), if tier == Tier::Thorough { " (one less for targets of 5 and more characters)" } else { "" }), n, done == targets.len() as u64);
    let table = escape_table();
    let (acc, done) = par_blocks(table.len() as u64, &budget, |b, acc| eval_escape(&table[b as usize].0, &table[b as usize].1, acc));
    let n = acc.evals;
    rep.acc.merge(acc);
    rep.scope("escape tables", n, done == table.len() as u64);
    rep.mc = Some((states.max(1), trans.max(1), rep.acc.evals * 2));
    rep.extra.insert("explanation".into(), json!("states = choice vectors (presentations incl. unrepresentable ones that the model skipped); transitions = edges of the choice tree; traces_validated = parses on the real scanner (2 back-ends)"));
    rep.finish()
}
