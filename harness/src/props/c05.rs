//! C05 — block scalars yield exactly the text YAML assigns to them (E2-style enumeration of
//! abstract line lists x configurations against the §8.1 reference semantics).
use crate::engine::{par_blocks, Budget};
use crate::models::block_scalar::*;
use crate::props::sweep::wall_cap;
use crate::report::{h64, Acc, Report, Tier, Violation};
use crate::subject::*;
use saphyr_parser::ScalarStyle;
use serde_json::{json, Value};

fn line_json(l: &L) -> Value {
    match l {
        L::T(t) => json!({"T": t}),
        L::E => json!("E"),
        L::Es => json!("Es"),
        L::S => json!("S"),
        L::En => json!("En"),
        L::Tt => json!("Tt"),
    }
}
fn line_parse(v: &Value) -> Option<L> {
    if let Some(s) = v.as_str() {
        return match s {
            "E" => Some(L::E),
            "Es" => Some(L::Es),
            "S" => Some(L::S),
            "En" => Some(L::En),
            "Tt" => Some(L::Tt),
            _ => None,
        };
    }
    let t = v.get("T")?.as_str()?;
    MENU.iter().chain(LONG_MENU.iter()).find(|m| matches!(m, L::T(x) if *x == t)).copied()
}
fn case_json(lines: &[L], c: &Cfg, text: &str) -> Value {
    json!({"kind": "block-scalar", "lines": lines.iter().map(line_json).collect::<Vec<_>>(), "folded": c.folded, "chomp": c.chomp, "ind": c.ind, "ctx": c.ctx, "hdr_comment": c.hdr_comment, "eof": c.eof, "sign_first": c.sign_first, "text": text})
}

fn eval_one(lines: &[L], c: &Cfg, acc: &mut Acc) {
    let Some(r) = render(lines, c) else { return };
    acc.evals += 1;
    let want_style = if c.folded { ScalarStyle::Folded } else { ScalarStyle::Literal };
    let has_text = lines.iter().any(|l| matches!(l, L::T(_) | L::S));
    let mut first: Option<Result<String, String>> = None;
    for b in [Backend::Str, Backend::Buf, Backend::Gen(8, true)] {
        let got: Result<String, String> = match observe(&r.text, b, Api::Iter) {
            Err(m) => Err(format!("panic: {m}")),
            Ok(o) => {
                if let Some(e) = &o.err {
                    Err(format!("error: {}", e.info))
                } else {
                    let blocks: Vec<&Ev> = o.evs.iter().map(|e| &e.0).filter(|e| matches!(e, Ev::Sc(_, st, _, _) if *st == want_style)).collect();
                    let others = o.evs.iter().filter(|e| matches!(&e.0, Ev::Sc(_, st, _, _) if *st != want_style)).count();
                    let want_others = match c.ctx {
                        0 | 1 | 9 => 0,
                        2 | 3 => usize::from(c.ctx == 2) + if r.has_sibling { if c.ctx == 2 { 2 } else { 1 } } else { 0 },
                        4 => 1 + if r.has_sibling { 2 } else { 0 },
                        _ => 1 + if r.has_sibling { 1 } else { 0 },
                    };
                    match blocks.as_slice() {
                        [Ev::Sc(v, _, _, _)] => {
                            if others != want_others {
                                Err(format!("structure: {} other scalars, expected {}: {}", others, want_others, o.kinds()))
                            } else {
                                Ok(v.clone())
                            }
                        }
                        _ => Err(format!("{} block scalar events: {}", blocks.len(), o.kinds())),
                    }
                }
            }
        };
        if got.as_ref().ok() != Some(&r.expect) {
            let eofn = ["final-break", "no-final-break", "sibling", "doc-end", "comment+sibling"][c.eof as usize];
            let what = match &got {
                Err(e) if e.starts_with("error") => format!("rejected:{}", crate::props::sweep::classify_panic(e)),
                Err(e) if e.starts_with("panic") => "panic".into(),
                Err(_) => "structure".into(),
                Ok(g) => {
                    if g.trim_end_matches('\n') == r.expect.trim_end_matches('\n') {
                        format!("tail(+{}/-{})", g.len() - g.trim_end_matches('\n').len(), r.expect.len() - r.expect.trim_end_matches('\n').len())
                    } else {
                        "content".into()
                    }
                }
            };
            acc.violation(Violation {
                key: format!("value style={} chomp={} ind={} eof={eofn} has_text={has_text} what={what}", if c.folded { "folded" } else { "literal" }, ["strip", "clip", "keep"][c.chomp as usize], if c.ind == 0 { "auto" } else { "explicit" }),
                expected: format!("{:?}", r.expect),
                observed: format!("backend={} {:?}", b.name(), got),
                case: case_json(lines, c, &r.text),
                size: r.text.len(),
            });
        }
        match &first {
            None => first = Some(got),
            Some(f) => {
                if *f != got {
                    acc.violation(Violation { key: format!("backends-disagree backend={}", b.name()), expected: format!("{f:?}"), observed: format!("{got:?}"), case: case_json(lines, c, &r.text), size: r.text.len() });
                }
            }
        }
    }
    let cls = h64(&(lines.iter().map(|l| std::mem::discriminant(l)).collect::<Vec<_>>(), c.folded, c.chomp, c.ind, c.eof, &r.expect));
    if acc.class(cls) && lines.len() >= 3 {
        acc.sample(json!({"text": r.text, "denotes": r.expect}));
    }
}

fn configs(wide: bool) -> Vec<Cfg> {
    let mut v = vec![];
    let ctxs: Vec<u8> = if wide { vec![6, 7, 8] } else { vec![0, 1, 2, 3, 4, 5, 9] };
    for folded in [false, true] {
        for chomp in 0..3u8 {
            for ind in 0..3u8 {
                for &ctx in &ctxs {
                    for hdr_comment in 0..5u8 {
                        for eof in 0..5u8 {
                            // the tab and blank-only header tails only with the plain end of input
                            if hdr_comment >= 2 && eof != 0 {
                                continue;
                            }
                            for sign_first in [false, true] {
                                v.push(Cfg { folded, chomp, ind, ctx, hdr_comment, eof, sign_first });
                            }
                        }
                    }
                }
            }
        }
    }
    v
}

fn lists(menu: &[L], maxl: usize) -> Vec<Vec<L>> {
    let mut out = vec![vec![]];
    let mut frontier: Vec<Vec<L>> = vec![vec![]];
    for _ in 0..maxl {
        let mut next = vec![];
        for f in &frontier {
            for m in menu {
                let mut v = f.clone();
                v.push(*m);
                next.push(v);
            }
        }
        out.extend(next.iter().cloned());
        frontier = next;
    }
    out
}

pub fn replay(case: &Value) -> Result<Acc, String> {
    let lines: Vec<L> = case["lines"].as_array().ok_or("no lines")?.iter().map(|l| line_parse(l).ok_or("bad line")).collect::<Result<_, _>>()?;
    let c = Cfg { folded: case["folded"].as_bool().unwrap_or(false), chomp: case["chomp"].as_u64().unwrap_or(1) as u8, ind: case["ind"].as_u64().unwrap_or(0) as u8, ctx: case["ctx"].as_u64().unwrap_or(0) as u8, hdr_comment: case["hdr_comment"].as_u64().unwrap_or(0) as u8, eof: case["eof"].as_u64().unwrap_or(0) as u8, sign_first: case["sign_first"].as_bool().unwrap_or(false) };
    let mut acc = Acc::default();
    eval_one(&lines, &c, &mut acc);
    Ok(acc)
}

pub fn check(tier: Tier) -> i32 {
    let mut rep = Report::new("C05", tier, "model_checking");
    rep.rule = "abstract values: every list of at most l lines over the menu {a, 'b c', ' x' (more indented), tab-led, empty, empty-with-spaces, a line of n+1 spaces, '- z', 'k: v', '# n', and as last line n-1 spaces + tab (which ends the scalar)}; configurations: {literal, folded} x {strip, clip, keep} x {auto, explicit 1, explicit 2 (both indicator orders)} x 7 parent contexts incl. a document root whose content sits at column 0 (+3 wide-indentation contexts and long lines in the thorough tier) x 5 header tails (nothing, comment, tab + comment, tab, blanks) x 5 end-of-input shapes; each is rendered to text, parsed by the real parser (3 input back-ends) and the block scalar's value and the surrounding structure are compared with the §8.1 reference semantics. Non-trivial: every rendered case; distinct: distinct (line kinds, configuration, denoted text).".into();
    rep.assumptions = vec![
        "declined zones (not generated, see DESIGN §4 C05): explicit indentation indicator at document level; keep + a final spaces-only line without a line break after other lines (as the sole line it is asserted: one empty line); auto-detected indentation whose first non-empty line starts with a space (or, for a document root with content at column 0, with a tab)".into(),
    ];
    let budget = Budget::new(wall_cap(tier));
    rep.mandatory_scopes = 1;
    let l = if tier == Tier::Quick { 3 } else { 4 };
    let ls = lists(&MENU, l);
    let cf = configs(false);
    let (acc, done) = par_blocks(ls.len() as u64, &budget, |b, acc| {
        for c in &cf {
            eval_one(&ls[b as usize], c, acc);
        }
    });
    let n = acc.evals;
    rep.acc.merge(acc);
    rep.scope(&format!("line lists <= {l} x configurations"), n, done == ls.len() as u64);
    let mut states = ls.len() as u64;
    if tier == Tier::Thorough || true {
        // wide parent indentation (the `indent >= bufmaxlen - 2` path) and long lines
        let lw = if tier == Tier::Quick { 2 } else { 3 };
        let mut menu: Vec<L> = MENU.to_vec();
        menu.extend(LONG_MENU.iter().copied());
        let ls2 = lists(&menu, lw);
        let cfw = configs(true);
        let cfl: Vec<Cfg> = configs(false).into_iter().filter(|c| c.hdr_comment == 0 && !c.sign_first).collect();
        let (acc, done) = par_blocks(ls2.len() as u64, &budget, |b, acc| {
            let has_long = ls2[b as usize].iter().any(|l| LONG_MENU.contains(l));
            for c in &cfw {
                eval_one(&ls2[b as usize], c, acc);
            }
            if has_long {
                for c in &cfl {
                    eval_one(&ls2[b as usize], c, acc);
                }
            }
        });
        let n = acc.evals;
        rep.acc.merge(acc);
        rep.scope(&format!("wide indentation / long lines, lists <= {lw}"), n, done == ls2.len() as u64);
        states += ls2.len() as u64;
    }
    let cases = rep.acc.evals;
    rep.mc = Some((states, cases.max(1), cases * 3));
    rep.extra.insert("explanation".into(), json!("states = abstract line lists; transitions = (list, configuration) renderings; traces_validated = parses on the real scanner (3 back-ends each) compared with the reference semantics"));
    rep.finish()
}
