//! C06 — ill-formed YAML is rejected with an error, never silently accepted.
use crate::engine::{explore, par_blocks, Budget, Ch};
use crate::models::damage::damage;
use crate::models::render::*;
use crate::props::c03::{case_json, tree_parse};
use crate::props::sweep::wall_cap;
use crate::report::{h64, Acc, Report, Tier, Violation};
use crate::scopes::load_suite;
use crate::subject::*;
use serde_json::{json, Value};

fn accepted(text: &str) -> Option<String> {
    for b in [Backend::Str, Backend::Buf] {
        match observe(text, b, Api::Iter) {
            Err(_) => {} // a panic is not an acceptance (C01 owns panics)
            Ok(o) => {
                if o.err.is_none() {
                    return Some(format!("backend={} accepted: {}", b.name(), o.kinds()));
                }
            }
        }
    }
    None
}

pub fn eval_rendering(ts: &[T], ch: &mut Ch, acc: &mut Acc, only: Option<(u8, usize, &str)>) {
    let r = render(ts, ch);
    // the undamaged stream must be accepted (otherwise C03 reports it; skip here)
    if accepted(&r.text).is_none() {
        acc.count("skipped_base_rejected", 1);
        return;
    }
    for d in damage(&r) {
        if let Some((op, site, variant)) = only {
            if d.op != op || d.site != site || d.variant != variant {
                continue;
            }
        }
        acc.evals += 1;
        acc.count(&format!("op{:02}", d.op), 1);
        if let Some(obs) = accepted(&d.text) {
            let mut case = case_json(ts, &ch.taken(), &r.text);
            case["op"] = json!(d.op);
            case["variant"] = json!(d.variant);
            case["site"] = json!(d.site);
            case["damaged"] = json!(d.text);
            acc.violation(Violation { key: format!("accepted op={} {}", d.op, d.variant), expected: "an error".into(), observed: obs, case, size: d.text.len() });
        }
        if acc.class(h64(&(d.op, d.variant, &d.text))) && d.text.len() > 16 && d.text.len() < 80 {
            acc.sample(json!({"op": d.op, "variant": d.variant, "damaged": d.text}));
        }
    }
}

/// (clause of the statement, ill-formed text)
fn hand_table() -> Vec<(&'static str, String)> {
    let mut v: Vec<(&'static str, String)> = vec![];
    // a quoted implicit key spanning lines: brace-less pairs of a flow sequence, after other entries
    for pre in ["", "x, ", "? x, ", "? x: y, ", "{a: b}, ", "[a], ", "\"q\": r, "] {
        for (q, e) in [('"', '"'), ('\'', '\'')] {
            v.push(("multi-line quoted implicit key", format!("[{pre}{q}a\n  b{e}: c]\n")));
            v.push(("multi-line quoted implicit key", format!("- [{pre}{q}a\n    b{e}: c]\n")));
            v.push(("multi-line quoted implicit key", format!("k: [{pre}{q}a\n    b{e}: c, d]\n")));
        }
    }
    // ... and of block mappings, nested and after other entries
    for pre in ["", "x: y\n", "? x\n", "- a\n"] {
        let ind = if pre == "- a\n" { continue } else { "" };
        v.push(("multi-line quoted implicit key", format!("{pre}{ind}\"a\n  b\": c\n")));
        v.push(("multi-line quoted implicit key", format!("{pre}{ind}'a\n  b': c\n")));
    }
    v.push(("multi-line quoted implicit key", "- \"a\n  b\": c\n".into()));
    v.push(("multi-line quoted implicit key", "k:\n  \"a\n   b\": c\n".into()));
    // an undeclared named handle, wherever the tag stands among the properties
    for t in ["&a !e!x v", "!e!x &a v", "- &a !e!x\n- b", "k: &a !e!x v", "[&a !e!x v]", "{&a !e!x k: v}", "&a !e!x [v]", "&a !e!x\n- v", "? &a !e!x k\n: v"] {
        v.push(("undeclared tag handle", format!("{t}\n")));
    }
    // an alias with no preceding anchor, in key and value positions and after properties were seen
    for t in ["*a", "k: *a", "*a : v", "[*a]", "{*a : v}", "- &b x\n- *a", "&a x: *b"] {
        v.push(("alias without anchor", format!("{t}\n")));
    }
    // anchors end with their document (checked with keep_tags off and on: the option keeps handles only)
    for t in ["--- &a x\n--- *a", "&a x\n...\n*a", "- &a x\n---\n- *a", "&a k: v\n---\n*a : w", "--- &a [x]\n--- {k: *a}", "&a x\n---\ny\n---\n*a"] {
        v.push(("alias without anchor", format!("{t}\n")));
    }
    v
}

pub fn replay(case: &Value) -> Result<Acc, String> {
    let mut acc = Acc::default();
    if case["kind"] == "suite" {
        acc.evals += 1;
        let t = case["text"].as_str().unwrap_or("");
        let kept = if case["name"].as_str().unwrap_or("") == "table: alias without anchor" { observe_keep_tags(t, Api::Iter).ok().filter(|o| o.err.is_none()).map(|o| format!("keep_tags(true) accepted: {}", o.kinds())) } else { None };
        if let Some(o) = accepted(t).or(kept) {
            acc.violation(Violation { key: format!("suite-error-case-accepted {}", case["name"].as_str().unwrap_or("")), expected: "an error".into(), observed: o, case: case.clone(), size: t.len() });
        }
        return Ok(acc);
    }
    let ts: Vec<T> = case["trees"].as_array().ok_or("no trees")?.iter().map(tree_parse).collect::<Result<_, _>>()?;
    let choices: Vec<u32> = case["choices"].as_array().ok_or("no choices")?.iter().map(|c| c.as_u64().unwrap_or(0) as u32).collect();
    let mut ch = Ch::new(&choices);
    let only = (case["op"].as_u64().unwrap_or(0) as u8, case["site"].as_u64().unwrap_or(0) as usize, case["variant"].as_str().unwrap_or("").to_string());
    eval_rendering(&ts, &mut ch, &mut acc, Some((only.0, only.1, &only.2)));
    Ok(acc)
}

pub fn check(tier: Tier) -> i32 {
    let mut rep = Report::new("C06", tier, "model_checking");
    rep.rule = "every well-formed stream of C03's generator (all trees of <= s nodes x all layout/decoration choice vectors with <= d deviations, one- and two-document streams) x each of the 14 damage operators x EVERY applicable site (truncation inside quoted scalars / flow collections at every cut, mismatched closing bracket, tab indentation, entry shifted between indentation levels, flow continuation line moved to the enclosing block's column or left of it, line break in a quoted implicit key, 1025-character implicit key, second root node, unknown/short/out-of-range escapes, alias to an undefined anchor, undeclared tag handle, duplicate %YAML, directive without '---', content after '...'). Oracle: the parse ends in an error (iterator; StrInput and BufferedInput). Plus the 94 error cases of the yaml-test-suite. Non-trivial: every damaged text; distinct: distinct (operator, variant, damaged text).".into();
    rep.assumptions = vec!["each operator only offers sites where the result is ill-formed whatever surrounds it (DESIGN §4 C06, §5.11: bracket-only / comma / comment / blank continuation lines of flow collections are not dedented)".into()];
    let budget = Budget::new(wall_cap(tier));
    rep.mandatory_scopes = 1;
    let bounds: Vec<(usize, usize)> = match tier {
        Tier::Quick => vec![(4, 2), (5, 1)],
        Tier::Thorough => vec![(4, 3), (5, 2), (6, 1)],
    };
    let mut states = 0u64;
    for (s, d) in bounds {
        let trees = all_trees(s);
        let small: Vec<T> = all_trees(1);
        let (acc, done) = par_blocks(trees.len() as u64, &budget, |b, acc| {
            let t = &trees[b as usize];
            let (c, _) = explore(d, &mut |ch: &mut Ch| eval_rendering(std::slice::from_ref(t), ch, acc, None));
            acc.count("renderings", c);
            if t.size() <= 2 {
                for t2 in &small {
                    let pair = [t.clone(), t2.clone()];
                    let (c, _) = explore(d.min(1), &mut |ch: &mut Ch| eval_rendering(&pair, ch, acc, None));
                    acc.count("renderings", c);
                }
            }
        });
        let n = acc.evals;
        states += acc.counters.get("renderings").copied().unwrap_or(0);
        rep.acc.merge(acc);
        rep.scope(&format!("trees <= {s} nodes x <= {d} deviations x all damage sites"), n, done == trees.len() as u64);
    }
    match load_suite() {
        Err(e) => rep.acc.machinery_errors.push(e),
        Ok(cases) => {
            let cases: Vec<_> = cases.into_iter().filter(|c| c.fail).collect();
            let (acc, done) = par_blocks(cases.len() as u64, &budget, |b, acc| {
                let c = &cases[b as usize];
                acc.evals += 1;
                if let Some(o) = accepted(&c.yaml) {
                    acc.violation(Violation { key: format!("suite-error-case-accepted {}", c.name), expected: "an error".into(), observed: o, case: json!({"kind": "suite", "name": c.name, "text": c.yaml}), size: c.yaml.len() });
                }
            });
            let n = acc.evals;
            rep.acc.merge(acc);
            rep.scope("suite error cases", n, done == cases.len() as u64);
        }
    }
    // a table of ill-formed texts that need more nodes and deviations at once than the enumeration
    // reaches: each names the clause of the statement it falls under
    let table = hand_table();
    let (acc, done) = par_blocks(table.len() as u64, &budget, |b, acc| {
        let (clause, text) = &table[b as usize];
        acc.evals += 1;
        let kept = if *clause == "alias without anchor" { observe_keep_tags(text, Api::Iter).ok().filter(|o| o.err.is_none()).map(|o| format!("keep_tags(true) accepted: {}", o.kinds())) } else { None };
        if let Some(o) = accepted(text).or(kept) {
            acc.violation(Violation { key: format!("table-case-accepted clause={clause}"), expected: "an error".into(), observed: o, case: json!({"kind": "suite", "name": format!("table: {clause}"), "text": text}), size: text.len() });
        }
    });
    let n = acc.evals;
    rep.acc.merge(acc);
    rep.scope(&format!("hand-listed ill-formed texts ({})", table.len()), n, done == table.len() as u64);
    let cases = rep.acc.evals;
    rep.mc = Some((states.max(1), cases.max(1), cases * 2));
    rep.extra.insert("explanation".into(), json!("states = well-formed renderings (choice vectors); transitions = (rendering, operator, site) damaged texts; traces_validated = parses of damaged text on the real parser (2 back-ends)"));
    rep.finish()
}
