//! C07 — loaded documents mirror the event stream exactly.
use crate::engine::{par_blocks, sweep_strings, Budget};
use crate::models::fold::{fold, F};
use crate::props::sweep::{case_text, str_case, wall_cap};
use crate::report::{h64, Acc, Report, Tier, Violation};
use crate::scopes::{load_suite, sigma};
use crate::subject::*;
use saphyr::{MarkedYaml, MarkedYamlOwned, Yaml, YamlLoader, YamlOwned};
use saphyr_parser::{ScalarStyle, SpannedEventReceiver};
use serde_json::{json, Value};
use std::panic::{catch_unwind, AssertUnwindSafe};

fn shape_of(c: &[Canon]) -> String {
    fn rec(c: &Canon, out: &mut String) {
        match c {
            Canon::Seq(v) => {
                out.push('[');
                v.iter().for_each(|x| rec(x, out));
                out.push(']');
            }
            Canon::Map(p) => {
                out.push('{');
                p.iter().for_each(|(k, v)| {
                    rec(k, out);
                    rec(v, out)
                });
                out.push('}');
            }
            Canon::Bad => out.push('B'),
            Canon::Null => out.push('~'),
            _ => out.push('='),
        }
    }
    let mut s = String::new();
    for d in c {
        rec(d, &mut s);
        s.push('|');
    }
    s
}

pub fn eval_str(s: &str, acc: &mut Acc) {
    acc.evals += 1;
    // events as delivered by push, through the same input back-end the loaders use
    let Ok(o) = observe(s, Backend::Buf, Api::Push) else { return };
    let model = if o.err.is_none() { Some(fold(o.evs.iter().map(|e| &e.0))) } else { None };
    for nt in NODE_TYPES {
        let got = match load_canon(s, nt) {
            Err(_) => continue, // panics are C01's business
            Ok(g) => g,
        };
        match (&o.err, &got) {
            (Some(e), Err(g)) => {
                if e != g {
                    acc.violation(Violation { key: format!("error-differs nt={nt:?}"), expected: format!("the parser's error {:?}", e.display), observed: g.display.clone(), case: str_case(s), size: s.len() });
                }
            }
            (Some(e), Ok(_)) => acc.violation(Violation { key: format!("load-ok-but-parser-error nt={nt:?}"), expected: format!("load fails with {:?}", e.display), observed: "load succeeded".into(), case: str_case(s), size: s.len() }),
            (None, Err(g)) => acc.violation(Violation { key: format!("load-error-but-parser-ok nt={nt:?}"), expected: "load succeeds".into(), observed: g.display.clone(), case: str_case(s), size: s.len() }),
            (None, Ok(docs)) => match model.as_ref().unwrap() {
                Err(m) => acc.violation(Violation { key: "model-cannot-fold".into(), expected: "a well-formed sentence".into(), observed: m.clone(), case: str_case(s), size: s.len() }),
                Ok(m) => check_docs(m, docs, &format!("nt={nt:?}"), str_case(s), s.len(), acc),
            },
        }
    }
    if let Some(Ok(m)) = &model {
        let canon: Vec<Canon> = m.iter().map(|f| f.to_canon()).collect();
        let sh = shape_of(&canon);
        if sh.contains('[') || sh.contains('{') {
            if acc.class(h64(&sh)) {
                acc.sample(json!({"input": s, "tree_shape": sh}));
            }
        }
    }
}

fn check_docs(model: &[F], got: &[Canon], cfg: &str, case: Value, size: usize, acc: &mut Acc) {
    if model.len() != got.len() {
        acc.violation(Violation { key: format!("document-count {cfg}"), expected: format!("{} documents", model.len()), observed: format!("{} documents", got.len()), case, size });
        return;
    }
    for (i, (m, g)) in model.iter().zip(got).enumerate() {
        if !m.matches(g) {
            let what = classify(m, g);
            acc.violation(Violation { key: format!("tree-differs {cfg} what={what}"), expected: format!("doc #{i}: {:?}", m.to_canon()), observed: format!("{g:?}"), case, size });
            return;
        }
    }
}

fn classify(m: &F, g: &Canon) -> String {
    match (m, g) {
        (F::Map(p, _), Canon::Map(q)) => {
            if p.len() != q.len() {
                let badkey = p.iter().any(|(k, _)| matches!(k, F::Leaf(Canon::Bad)));
                return format!("map-size{}", if badkey { "-with-badvalue-key" } else { "" });
            }
            for ((_, mv), (_, gv)) in p.iter().zip(q) {
                if !mv.matches(gv) {
                    return format!("in-map:{}", classify(mv, gv));
                }
            }
            "map-pairs".into()
        }
        (F::Seq(p), Canon::Seq(q)) => {
            if p.len() != q.len() {
                return "seq-len".into();
            }
            for (a, b) in p.iter().zip(q) {
                if !a.matches(b) {
                    return format!("in-seq:{}", classify(a, b));
                }
            }
            "seq".into()
        }
        (F::Leaf(a), b) => format!("leaf:{}->{}", kind(a), kind(b)),
        (_, b) => format!("shape->{}", kind(b)),
    }
}
fn kind(c: &Canon) -> &'static str {
    match c {
        Canon::Null => "null",
        Canon::Bool(_) => "bool",
        Canon::Int(_) => "int",
        Canon::Float(_) => "float",
        Canon::Str(_) => "str",
        Canon::Rep(..) => "rep",
        Canon::Bad => "bad",
        Canon::Alias(_) => "alias",
        Canon::Seq(_) => "seq",
        Canon::Map(_) => "map",
    }
}

// ---------------------------------------------------------------------------------------------
// event-level scope: all well-formed sentences up to a node-event budget, fed to the loader
// ---------------------------------------------------------------------------------------------

fn scalars() -> Vec<(String, ScalarStyle, OTag)> {
    vec![
        ("a".into(), ScalarStyle::Plain, None),
        ("1".into(), ScalarStyle::Plain, None),
        ("x".into(), ScalarStyle::Plain, Some(("tag:yaml.org,2002:".into(), "int".into()))), // resolves to BadValue
    ]
}

/// Enumerates all node event sequences that use at most `budget` events. `next_anchor` is the
/// next id to hand out; `issued` lists the ids handed out so far (aliases may use any of them,
/// including ids of still-open collections).
fn gen_node(budget: usize, next_anchor: usize, out: &mut Vec<(Vec<Ev>, usize)>) {
    if budget == 0 {
        return;
    }
    for (v, st, t) in scalars() {
        out.push((vec![Ev::Sc(v.clone(), st, 0, t.clone())], next_anchor));
        out.push((vec![Ev::Sc(v, st, next_anchor, t)], next_anchor + 1));
    }
    for id in 1..next_anchor {
        out.push((vec![Ev::Al(id)], next_anchor));
    }
    if budget >= 2 {
        for anchored in [false, true] {
            let (aid, na) = if anchored { (next_anchor, next_anchor + 1) } else { (0, next_anchor) };
            // sequences
            let mut bodies = vec![];
            gen_list(budget - 2, na, false, &mut bodies);
            for (b, n2) in bodies {
                let mut v = vec![Ev::SeqS(aid, None)];
                v.extend(b);
                v.push(Ev::SeqE);
                out.push((v, n2));
            }
            let mut bodies = vec![];
            gen_list(budget - 2, na, true, &mut bodies);
            for (b, n2) in bodies {
                let mut v = vec![Ev::MapS(aid, None)];
                v.extend(b);
                v.push(Ev::MapE);
                out.push((v, n2));
            }
        }
    }
}
/// lists of nodes (even count when `pairs`) using at most `budget` events
fn gen_list(budget: usize, next_anchor: usize, pairs: bool, out: &mut Vec<(Vec<Ev>, usize)>) {
    out.push((vec![], next_anchor));
    if budget == 0 {
        return;
    }
    let mut firsts = vec![];
    gen_node(budget, next_anchor, &mut firsts);
    for (f, n1) in firsts {
        let left = budget - f.len();
        if pairs {
            if left == 0 {
                continue;
            }
            let mut seconds = vec![];
            gen_node(left, n1, &mut seconds);
            for (s2, n2) in seconds {
                let left2 = left - s2.len();
                let mut rests = vec![];
                gen_list(left2, n2, true, &mut rests);
                for (r, n3) in rests {
                    let mut v = f.clone();
                    v.extend(s2.iter().cloned());
                    v.extend(r);
                    out.push((v, n3));
                }
            }
        } else {
            let mut rests = vec![];
            gen_list(left, n1, false, &mut rests);
            for (r, n3) in rests {
                let mut v = f.clone();
                v.extend(r);
                out.push((v, n3));
            }
        }
    }
}

pub fn sentences(budget: usize) -> Vec<Vec<Ev>> {
    let mut nodes = vec![];
    gen_node(budget, 1, &mut nodes);
    nodes
        .into_iter()
        .map(|(n, _)| {
            let mut v = vec![Ev::SS, Ev::DS(false)];
            v.extend(n);
            v.push(Ev::DE);
            v.push(Ev::SE);
            v
        })
        .collect()
}

fn feed<'a, N: saphyr::LoadableYamlNode<'a>>(evs: &[Ev]) -> Vec<N> {
    let mut l: YamlLoader<N> = YamlLoader::default();
    let sp = Sp { si: 0, sl: 1, sc: 0, ei: 0, el: 1, ec: 0 }.to_span();
    for e in evs {
        l.on_event(e.to_event(), sp);
    }
    l.into_documents()
}

fn ev_case(evs: &[Ev]) -> Value {
    json!({"kind": "events", "events": evs.iter().map(ev_json).collect::<Vec<_>>()})
}
fn ev_json(e: &Ev) -> Value {
    match e {
        Ev::SS => json!("SS"),
        Ev::SE => json!("SE"),
        Ev::DS(_) => json!("DS"),
        Ev::DE => json!("DE"),
        Ev::SeqE => json!("SeqE"),
        Ev::MapE => json!("MapE"),
        Ev::Nothing => json!("Nothing"),
        Ev::Al(a) => json!({"alias": a}),
        Ev::SeqS(a, _) => json!({"seq": a}),
        Ev::MapS(a, _) => json!({"map": a}),
        Ev::Sc(v, st, a, t) => json!({"scalar": v, "plain": *st == ScalarStyle::Plain, "anchor": a, "tag": t.as_ref().map(|t| format!("{}{}", t.0, t.1))}),
    }
}
fn ev_parse(v: &Value) -> Result<Ev, String> {
    if let Some(s) = v.as_str() {
        return Ok(match s {
            "SS" => Ev::SS,
            "SE" => Ev::SE,
            "DS" => Ev::DS(false),
            "DE" => Ev::DE,
            "SeqE" => Ev::SeqE,
            "MapE" => Ev::MapE,
            _ => return Err(format!("bad event {s}")),
        });
    }
    if let Some(a) = v.get("alias") {
        return Ok(Ev::Al(a.as_u64().unwrap_or(0) as usize));
    }
    if let Some(a) = v.get("seq") {
        return Ok(Ev::SeqS(a.as_u64().unwrap_or(0) as usize, None));
    }
    if let Some(a) = v.get("map") {
        return Ok(Ev::MapS(a.as_u64().unwrap_or(0) as usize, None));
    }
    if let Some(s) = v.get("scalar") {
        let tag = v.get("tag").and_then(|t| t.as_str()).map(|t| {
            let (h, s) = t.split_at(t.rfind(':').map_or(0, |i| i + 1));
            (h.to_string(), s.to_string())
        });
        let st = if v["plain"].as_bool().unwrap_or(true) { ScalarStyle::Plain } else { ScalarStyle::DoubleQuoted };
        return Ok(Ev::Sc(s.as_str().unwrap_or("").into(), st, v["anchor"].as_u64().unwrap_or(0) as usize, tag));
    }
    Err(format!("bad event {v}"))
}

pub fn eval_events(evs: &[Ev], acc: &mut Acc) {
    acc.evals += 1;
    let model = match fold(evs.iter()) {
        Ok(m) => m,
        Err(e) => {
            acc.machinery_errors.push(format!("generated sentence does not fold: {e}"));
            return;
        }
    };
    let size = evs.len();
    let r = catch_unwind(AssertUnwindSafe(|| {
        (
            feed::<Yaml>(evs).iter().map(canon_yaml).collect::<Vec<_>>(),
            feed::<YamlOwned>(evs).iter().map(canon_owned).collect::<Vec<_>>(),
            feed::<MarkedYaml>(evs).iter().map(canon_marked).collect::<Vec<_>>(),
            feed::<MarkedYamlOwned>(evs).iter().map(canon_marked_owned).collect::<Vec<_>>(),
        )
    }));
    match r {
        Err(e) => acc.violation(Violation { key: "loader-panic-on-wellformed-events".into(), expected: "documents".into(), observed: panic_msg(e), case: ev_case(evs), size }),
        Ok((a, b, c, d)) => {
            for (name, got) in [("Yaml", a), ("Owned", b), ("Marked", c), ("MarkedOwned", d)] {
                check_docs(&model, &got, &format!("events nt={name}"), ev_case(evs), size, acc);
            }
        }
    }
    let canon: Vec<Canon> = model.iter().map(|f| f.to_canon()).collect();
    let sh = shape_of(&canon);
    if acc.class(h64(&(sh.clone(), evs.iter().map(|e| e.kind()).collect::<String>()))) && evs.len() > 7 {
        acc.sample(json!({"events": evs.iter().map(|e| e.kind()).collect::<String>(), "tree_shape": sh}));
    }
}

pub fn replay(case: &Value) -> Result<Acc, String> {
    let mut acc = Acc::default();
    if case["kind"] == "events" {
        let evs: Result<Vec<Ev>, String> = case["events"].as_array().ok_or("no events")?.iter().map(ev_parse).collect();
        eval_events(&evs?, &mut acc);
    } else {
        eval_str(&case_text(case)?, &mut acc);
    }
    Ok(acc)
}

pub fn check(tier: Tier) -> i32 {
    let mut rep = Report::new("C07", tier, "model_checking");
    rep.rule = "(a) every string up to length N over the block, flow and property alphabets and every yaml-test-suite input: the events delivered by the push interface are folded by an independent loader model and compared with load_from_str of the 4 node types (documents, order, pairing, alias copies, last-wins duplicates, error equality); (b) every well-formed single-document event sentence up to a node-event budget over scalars {a, 1, !!int x -> BadValue}, anchors on any node, aliases to any issued id (open collections included), fed directly to YamlLoader of the 4 node types. Non-trivial: the document contains a collection; distinct: distinct tree shapes.".into();
    rep.assumptions = vec!["scalar resolution inside the model uses the subject's public Scalar::parse_from_cow_and_metadata (C08 decides its correctness)".into(), "the iteration position of a key that occurred twice is not constrained; float keys are equal by value (0.0 == -0.0, NaN == NaN)".into()];
    let budget = Budget::new(wall_cap(tier));
    let (n, nodes) = match tier {
        Tier::Quick => (6, 7),
        Tier::Thorough => (8, 8),
    };
    rep.mandatory_scopes = 6;
    let mut states = 0;
    for a in ["blk", "flow", "prop", "quo", "doc"] {
        let sp = sigma(a, n);
        let (acc, done) = sweep_strings(&sp, &budget, |s, acc| eval_str(s, acc));
        let c = acc.evals;
        states += c;
        rep.acc.merge(acc);
        rep.scope(&sp.name, c, done);
    }
    match load_suite() {
        Err(e) => rep.acc.machinery_errors.push(e),
        Ok(cases) => {
            let (acc, done) = par_blocks(cases.len() as u64, &budget, |b, acc| eval_str(&cases[b as usize].yaml, acc));
            let c = acc.evals;
            states += c;
            rep.acc.merge(acc);
            rep.scope("suite", c, done == cases.len() as u64);
        }
    }
    for (sz, d) in if tier == Tier::Quick { vec![(3usize, 2usize), (4, 1)] } else { vec![(4, 2), (5, 1)] } {
        let (acc, done) = crate::props::sweep::sweep_gen(sz, d, &budget, |s, acc| eval_str(s, acc));
        let c = acc.evals;
        states += c;
        rep.acc.merge(acc);
        rep.scope(&format!("gen({sz},{d})"), c, done);
    }
    let sents = sentences(nodes);
    let (acc, done) = par_blocks((sents.len() as u64 + 255) / 256, &budget, |b, acc| {
        for s in sents.iter().skip(b as usize * 256).take(256) {
            eval_events(s, acc);
        }
    });
    let c = acc.evals;
    states += c;
    rep.acc.merge(acc);
    rep.scope(&format!("event sentences <= {nodes} node events"), c, done == (sents.len() as u64 + 255) / 256);
    rep.mc = Some((states, states, states * 4));
    rep.extra.insert("explanation".into(), json!("states = inputs / event sentences enumerated; transitions = one model fold per case; traces_validated = loads on the real loader compared with the model (4 node types per case)"));
    rep.finish()
}
