//! C08 — scalar typing follows the YAML 1.2 core schema and never corrupts text.
use crate::engine::{par_blocks, sweep_strings, Budget, StrSpace};
use crate::models::core_schema::{int_text_as_f64, resolve, M};
use crate::props::sweep::wall_cap;
use crate::report::{h64, short, Acc, Report, Tier, Violation};
use crate::subject::*;
use saphyr::{Scalar, ScalarOwned};
use saphyr_parser::{ScalarStyle, Tag};
use serde_json::{json, Value};

pub const SIGMA_NUM: &str = "01789+-.eExoafAF_~nultrsiNULTRSI";

const STYLES: [ScalarStyle; 5] = [ScalarStyle::Plain, ScalarStyle::SingleQuoted, ScalarStyle::DoubleQuoted, ScalarStyle::Literal, ScalarStyle::Folded];
const TAGS: [&str; 9] = ["", "int", "float", "bool", "null", "str", "!foo", "!", "!<x>"];

fn style_name(s: ScalarStyle) -> &'static str {
    match s {
        ScalarStyle::Plain => "plain",
        ScalarStyle::SingleQuoted => "single",
        ScalarStyle::DoubleQuoted => "double",
        ScalarStyle::Literal => "literal",
        ScalarStyle::Folded => "folded",
    }
}
fn style_parse(s: &str) -> Option<ScalarStyle> {
    STYLES.iter().copied().find(|x| style_name(*x) == s)
}
fn mk_tag(t: &str) -> Option<Tag> {
    match t {
        "" => None,
        "!foo" => Some(Tag { handle: "!".into(), suffix: "foo".into() }),
        // the non-specific tag and a verbatim tag, as the parser delivers them
        "!" => Some(Tag { handle: "".into(), suffix: "!".into() }),
        "!<x>" => Some(Tag { handle: "".into(), suffix: "x".into() }),
        core => Some(Tag { handle: "tag:yaml.org,2002:".into(), suffix: core.into() }),
    }
}

/// What the subject returned, in canonical form.
fn got_of(r: Option<Scalar>) -> Canon {
    match r {
        None => Canon::Bad,
        Some(s) => canon_scalar(&s),
    }
}

fn shape(t: &str) -> String {
    let mut out = String::new();
    let mut last9 = false;
    for c in t.chars() {
        if c.is_ascii_digit() {
            if !last9 {
                out.push('9');
            }
            last9 = true;
        } else {
            out.push(c);
            last9 = false;
        }
    }
    short(&out, 24)
}
fn tname(c: &Canon) -> &'static str {
    match c {
        Canon::Null => "Null",
        Canon::Bool(_) => "Bool",
        Canon::Int(_) => "Int",
        Canon::Float(_) => "Float",
        Canon::Str(_) => "Str",
        Canon::Bad => "BadValue",
        _ => "other",
    }
}

fn float_eq(bits: u64, f: f64) -> bool {
    bits == float_bits(f)
}

/// Judges one resolution; returns (expected description) when it violates C08.
fn judge(text: &str, style: ScalarStyle, tag: &str, got: &Canon) -> Option<String> {
    if style != ScalarStyle::Plain {
        return match got {
            Canon::Str(s) if s == text => None,
            _ => Some(format!("String({text:?}) (non-plain scalars are strings)")),
        };
    }
    let (m, required) = resolve(text);
    let int_fits = |v: &Option<i128>| v.and_then(|v| i64::try_from(v).ok());
    match tag {
        "" => {
            let ok = match (&m, got) {
                (M::Null, Canon::Null) => true,
                (M::Bool(a), Canon::Bool(b)) => a == b,
                (M::Int(v), Canon::Int(i)) => int_fits(v) == Some(*i),
                // an integer literal outside i64 may widen to a float of the same value or stay a string
                (M::Int(v), Canon::Float(b)) => int_fits(v).is_none() && int_text_as_f64(text).map_or(false, |f| float_eq(*b, f)),
                (M::Int(v), Canon::Str(s)) => int_fits(v).is_none() && s == text,
                (M::Float(a), Canon::Float(b)) => float_eq(*b, *a),
                (M::Str, Canon::Str(s)) => s == text,
                (_, Canon::Str(s)) => !required && s == text,
                _ => false,
            };
            if ok {
                None
            } else {
                Some(format!("core-schema reading {m:?}{}", if required { "" } else { " (or the unchanged string)" }))
            }
        }
        "int" => match got {
            Canon::Bad => {
                // decimal integers that fit must be accepted
                let body = text.strip_prefix(['-', '+']).unwrap_or(text);
                let decimal = !body.is_empty() && body.chars().all(|c| c.is_ascii_digit());
                if decimal && matches!(&m, M::Int(v) if int_fits(v).is_some()) {
                    Some("decimal integer accepted under !!int".into())
                } else {
                    None
                }
            }
            Canon::Int(i) => {
                if matches!(&m, M::Int(v) if int_fits(v) == Some(*i)) {
                    None
                } else {
                    Some(format!("BadValue or the untagged reading {m:?}"))
                }
            }
            _ => Some("Integer or BadValue under !!int".into()),
        },
        "float" => match got {
            Canon::Bad => {
                // decimal / exponent floats must be accepted
                let body = text.strip_prefix(['-', '+']).unwrap_or(text);
                let decimal_float = matches!(m, M::Float(_)) && body.chars().next().map_or(false, |c| c.is_ascii_digit() || c == '.') && body.chars().any(|c| c.is_ascii_digit());
                if decimal_float {
                    Some("decimal/exponent float accepted under !!float".into())
                } else {
                    None
                }
            }
            Canon::Float(b) => {
                let ok = match &m {
                    M::Float(a) => float_eq(*b, *a),
                    M::Int(_) => int_text_as_f64(text).map_or(false, |f| float_eq(*b, f)),
                    _ => false,
                };
                if ok {
                    None
                } else {
                    Some(format!("BadValue or the untagged reading {m:?} (an integer may widen)"))
                }
            }
            _ => Some("FloatingPoint or BadValue under !!float".into()),
        },
        "bool" => match got {
            Canon::Bad => {
                if text == "true" || text == "false" {
                    Some("true/false accepted under !!bool".into())
                } else {
                    None
                }
            }
            Canon::Bool(b) => {
                if m == M::Bool(*b) {
                    None
                } else {
                    Some(format!("BadValue or the untagged reading {m:?}"))
                }
            }
            _ => Some("Boolean or BadValue under !!bool".into()),
        },
        "null" => match got {
            Canon::Bad => {
                if text == "null" || text == "~" {
                    Some("null/~ accepted under !!null".into())
                } else {
                    None
                }
            }
            Canon::Null => {
                if m == M::Null {
                    None
                } else {
                    Some(format!("BadValue or the untagged reading {m:?}"))
                }
            }
            _ => Some("Null or BadValue under !!null".into()),
        },
        _ => match got {
            Canon::Str(s) if s == text => None,
            _ => Some(format!("String({text:?}) under !!str / a foreign tag")),
        },
    }
}

fn case_of(text: &str, style: ScalarStyle, tag: &str, via: &str) -> Value {
    json!({"kind": "scalar", "text": text, "style": style_name(style), "tag": tag, "via": via})
}

fn eval_direct(text: &str, style: ScalarStyle, tag: &str, acc: &mut Acc) {
    let t = mk_tag(tag);
    let b = std::panic::catch_unwind(|| got_of(Scalar::parse_from_cow_and_metadata(text.into(), style, t.as_ref())));
    let o = std::panic::catch_unwind(|| match ScalarOwned::parse_from_cow_and_metadata(text.into(), style, t.as_ref()) {
        None => Canon::Bad,
        Some(s) => canon_scalar_owned(&s),
    });
    let (Ok(b), Ok(o)) = (b, o) else {
        acc.violation(Violation { key: format!("panic style={} tag={tag}", style_name(style)), expected: "no panic".into(), observed: "panic in parse_from_cow_and_metadata".into(), case: case_of(text, style, tag, "direct"), size: text.len() });
        return;
    };
    if b != o {
        acc.violation(Violation { key: format!("borrowed-vs-owned style={} tag={tag}", style_name(style)), expected: "identical resolution".into(), observed: format!("borrowed {b:?} owned {o:?}"), case: case_of(text, style, tag, "direct"), size: text.len() });
    }
    if let Some(exp) = judge(text, style, tag, &b) {
        acc.violation(Violation { key: format!("resolve style={} tag={tag} shape={} got={}", style_name(style), shape(text), tname(&b)), expected: exp, observed: format!("{b:?}"), case: case_of(text, style, tag, "direct"), size: text.len() });
    }
    // the node-level constructors are thin wrappers of the resolver for every node type
    {
        use saphyr::YamlData;
        let n1 = std::panic::catch_unwind(|| canon_yaml(&saphyr::Yaml::value_from_cow_and_metadata(text.into(), style, t.as_ref())));
        let n3 = std::panic::catch_unwind(|| canon_marked(&saphyr::MarkedYaml::from(YamlData::value_from_cow_and_metadata(text.into(), style, t.as_ref()))));
        for (nt, n) in [("Yaml", n1), ("YamlData", n3)] {
            if n.as_ref().ok() != Some(&b) {
                acc.violation(Violation { key: format!("value_from_cow_and_metadata-differs nt={nt} style={} tag={tag}", style_name(style)), expected: format!("{b:?}"), observed: format!("{n:?}"), case: case_of(text, style, tag, "direct"), size: text.len() });
            }
        }
    }
    if style == ScalarStyle::Plain && tag.is_empty() {
        let v1 = canon_yaml(&saphyr::Yaml::value_from_str(text));
        let v2 = canon_yaml(&saphyr::Yaml::scalar_from_string(text.to_string()));
        let v3 = canon_marked(&saphyr::MarkedYaml::from(saphyr::YamlData::value_from_str(text)));
        if v1 != b || v2 != b || v3 != b {
            acc.violation(Violation { key: "value_from_str-differs".into(), expected: format!("{b:?}"), observed: format!("value_from_str {v1:?} scalar_from_string {v2:?} YamlData::value_from_str {v3:?}"), case: case_of(text, style, tag, "direct"), size: text.len() });
        }
        // also the untagged convenience entry points
        let c = canon_scalar(&Scalar::parse_from_cow(text.into()));
        let d = canon_scalar_owned(&ScalarOwned::parse_from_cow(text.into()));
        if c != b || d != b {
            acc.violation(Violation { key: "parse_from_cow-differs".into(), expected: format!("{b:?}"), observed: format!("parse_from_cow {c:?} owned {d:?}"), case: case_of(text, style, tag, "direct"), size: text.len() });
        }
    }
}

/// Through the whole pipeline: a document `k: <tag> <scalar>` loaded as each node type.
fn eval_pipeline(text: &str, style: ScalarStyle, tag: &str, acc: &mut Acc) {
    let t = match tag {
        "" => String::new(),
        "!foo" => "!foo ".into(),
        "!" => "! ".into(),
        "!<x>" => "!<x> ".into(),
        core => format!("!!{core} "),
    };
    let doc = match style {
        ScalarStyle::Plain => format!("k: {t}{text}\n"),
        ScalarStyle::SingleQuoted => format!("k: {t}'{text}'\n"),
        ScalarStyle::DoubleQuoted => format!("k: {t}\"{text}\"\n"),
        ScalarStyle::Literal => format!("k: {t}|-\n  {text}\n"),
        ScalarStyle::Folded => format!("k: {t}>-\n  {text}\n"),
    };
    // Only inputs that the parser turns into exactly that scalar are in scope here.
    let Ok(o) = observe(&doc, Backend::Str, Api::Iter) else { return };
    if o.err.is_some() || o.evs.len() != 8 {
        acc.count("pipeline_skipped_not_one_scalar", 1);
        return;
    }
    match &o.evs[4].0 {
        Ev::Sc(v, st, _, _) if v == text && *st == style => {}
        _ => {
            acc.count("pipeline_skipped_not_one_scalar", 1);
            return;
        }
    }
    acc.count("pipeline_cases", 1);
    for nt in NODE_TYPES {
        match load_canon(&doc, nt) {
            Err(msg) => acc.violation(Violation { key: format!("pipeline-panic nt={nt:?}"), expected: "no panic".into(), observed: msg, case: case_of(text, style, tag, "pipeline"), size: text.len() }),
            Ok(Err(e)) => acc.violation(Violation { key: format!("pipeline-load-error nt={nt:?}"), expected: "document loads".into(), observed: e.display, case: case_of(text, style, tag, "pipeline"), size: text.len() }),
            Ok(Ok(docs)) => {
                let got = match docs.as_slice() {
                    [Canon::Map(p)] if p.len() == 1 => p[0].1.clone(),
                    other => {
                        acc.violation(Violation { key: format!("pipeline-shape nt={nt:?}"), expected: "one mapping with one pair".into(), observed: format!("{other:?}"), case: case_of(text, style, tag, "pipeline"), size: text.len() });
                        continue;
                    }
                };
                if let Some(exp) = judge(text, style, tag, &got) {
                    acc.violation(Violation { key: format!("pipeline-resolve nt={nt:?} style={} tag={tag} shape={} got={}", style_name(style), shape(text), tname(&got)), expected: exp, observed: format!("{got:?}"), case: case_of(text, style, tag, "pipeline"), size: text.len() });
                }
            }
        }
    }
}

pub fn boundary_texts() -> Vec<String> {
    let mut v: Vec<String> = vec![];
    let two63: i128 = 1 << 63;
    for d in [-2i128, -1, 0, 1, 2] {
        let p = two63 + d;
        v.push(format!("{p}"));
        v.push(format!("+{p}"));
        v.push(format!("-{p}"));
        v.push(format!("0x{p:x}"));
        v.push(format!("0x{p:X}"));
        v.push(format!("0o{p:o}"));
    }
    for d in [-1i128, 0, 1] {
        let p = (1i128 << 64) + d;
        v.push(format!("{p}"));
        v.push(format!("0x{p:x}"));
        v.push(format!("0o{p:o}"));
    }
    v.push("9".repeat(400));
    v.push(format!("-{}", "9".repeat(400)));
    v.push(format!("0x{}", "f".repeat(40)));
    v.push(format!("0o{}", "7".repeat(50)));
    v.push(format!("{}.5", "1".repeat(400)));
    for s in [
        "1e400", "-1e400", "1e-400", "4.9e-324", "2.2250738585072014e-308", "1.7976931348623157e308", "1.7976931348623159e308", "0.1", "0.30000000000000004", "9007199254740993", "9007199254740993.0", "123456789012345678", "1.0", "1.", ".5", "+.5", "-.5", "1.e3", "1e3", "1E3", "1e+3",
        "1e-3", "1.5e3", "-1.5E-3", "+1", "-0", "+0", "00", "007", "08", "0o0", "0o8", "0o", "0x", "0x0", "0xg", "0X1", "0O7", "0b1", "1_000", "1__0", "_1", "1_", "0x_1", "0x1_f", "1e", "e1", "1e+", "1ee1", "1.2.3", ".", "..", "...", "-", "+", "-.", "+.", ".e1", "-.e1", "1-", "1+1", "--1", "-+1", "+-1",
        "++1", "0x+1", "0x-1", "0o+7", "0o-7", "+0x1", "-0x1", "+0o7", "-0o7", ".inf", ".Inf", ".INF", ".iNF", "+.inf", "+.Inf", "+.INF", "-.inf", "-.Inf", "-.INF", "-.iNf", ".nan", ".NaN", ".NAN", ".Nan", ".nAn", "+.nan", "-.nan", "inf", "Inf", "INF", "+inf", "-inf", "infinity", "Infinity", "INFINITY",
        "+infinity", "-Infinity", "nan", "NaN", "NAN", "+nan", "-nan", "null", "Null", "NULL", "nULL", "nul", "nulll", "~", "~~", "true", "True", "TRUE", "tRUE", "truE", "false", "False", "FALSE", "fALSE", "yes", "no", "on", "off", "y", "n", "Yes", "No", "t", "f", "T", "F", "", " ", "1 ", " 1", "1 2", "1\t",
        "000000000000000000012", "-09223372036854775808", "+0000000000000000000001", "0000000000000000000000000000001.5", "0x00000000000000000000001F", "0o000000000000000000000017", "١٢٣", "１２３", "1e１", "0x１", "²", "½", "1²",
    ] {
        v.push(s.to_string());
    }
    v.sort();
    v.dedup();
    v
}

fn eval_case(case: &Value, acc: &mut Acc) -> Result<(), String> {
    let text = case["text"].as_str().ok_or("no text")?;
    let style = style_parse(case["style"].as_str().unwrap_or("plain")).ok_or("bad style")?;
    let tag = case["tag"].as_str().unwrap_or("");
    let tag = TAGS.iter().find(|t| **t == tag).ok_or("bad tag")?;
    acc.evals += 1;
    if case["via"].as_str() == Some("pipeline") {
        eval_pipeline(text, style, tag, acc);
    } else {
        eval_direct(text, style, tag, acc);
    }
    Ok(())
}

pub fn replay(case: &Value) -> Result<Acc, String> {
    let mut acc = Acc::default();
    eval_case(case, &mut acc)?;
    Ok(acc)
}

fn classify_sample(text: &str, acc: &mut Acc) {
    // non-trivial: the model reads the text as a non-string
    let (m, _) = resolve(text);
    if m != M::Str {
        let cls = h64(&(shape(text), format!("{m:?}").chars().take(4).collect::<String>()));
        if acc.class(cls) {
            acc.sample(json!({"text": text, "model_reading": format!("{m:?}")}));
        }
    }
}

pub fn check(tier: Tier) -> i32 {
    let mut rep = Report::new("C08", tier, "model_checking");
    rep.rule = "every text up to length L over the 32-symbol core-schema alphabet plus a boundary table is resolved by the real resolver (borrowed and owned entry points) for 5 styles x 9 tags and, at a smaller L, through the whole load pipeline as each of the 4 node types; each result is compared with an independent matcher for the YAML 1.2 core-schema productions. Non-trivial: the model reads the text as a non-string; distinct: distinct (digit-collapsed shape, type).".into();
    rep.assumptions = vec!["std's str::parse::<f64> is the trusted decimal-to-double conversion for float values".into(), "'recognised' is required for JSON literals, decimal/0x/0o integers within 64 bits, floats and .inf/.nan spellings; capitalised Null/True/False spellings may stay strings".into()];
    let budget = Budget::new(wall_cap(tier));
    let (l_plain, l_all, l_pipe) = match tier {
        Tier::Quick => (5, 4, 3),
        Tier::Thorough => (6, 5, 4),
    };
    rep.mandatory_scopes = 4;
    let mut states = 0u64;
    let mut validated = 0u64;
    // 1. untagged plain reading
    let sp = StrSpace::chars(&format!("num^{l_plain} plain untagged"), SIGMA_NUM, l_plain);
    let (acc, done) = sweep_strings(&sp, &budget, |s, acc| {
        acc.evals += 1;
        eval_direct(s, ScalarStyle::Plain, "", acc);
        classify_sample(s, acc);
    });
    states += acc.evals;
    validated += acc.evals * 4;
    let n = acc.evals;
    rep.acc.merge(acc);
    rep.scope(&sp.name, n, done);
    // 2. all styles x tags
    let sp = StrSpace::chars(&format!("num^{l_all} x 5 styles x 9 tags"), SIGMA_NUM, l_all);
    let (acc, done) = sweep_strings(&sp, &budget, |s, acc| {
        for st in STYLES {
            for tg in TAGS {
                acc.evals += 1;
                eval_direct(s, st, tg, acc);
            }
        }
    });
    states += acc.evals;
    validated += acc.evals * 2;
    let n = acc.evals;
    rep.acc.merge(acc);
    rep.scope(&sp.name, n, done);
    // 3. pipeline
    let sp = StrSpace::chars(&format!("num^{l_pipe} pipeline x 5 styles x 9 tags x 4 node types"), SIGMA_NUM, l_pipe);
    let (acc, done) = sweep_strings(&sp, &budget, |s, acc| {
        for st in STYLES {
            for tg in TAGS {
                acc.evals += 1;
                eval_pipeline(s, st, tg, acc);
            }
        }
    });
    states += acc.evals;
    validated += acc.counters.get("pipeline_cases").copied().unwrap_or(0) * 4;
    let n = acc.evals;
    rep.acc.merge(acc);
    rep.scope(&sp.name, n, done);
    // 4. boundary table
    let table = boundary_texts();
    let (acc, done) = par_blocks(table.len() as u64, &budget, |b, acc| {
        let s = &table[b as usize];
        for st in STYLES {
            for tg in TAGS {
                acc.evals += 2;
                eval_direct(s, st, tg, acc);
                if !s.contains(['\n', '"', '\'', '\\']) && !s.starts_with(' ') && !s.ends_with([' ', '\t']) {
                    eval_pipeline(s, st, tg, acc);
                }
            }
        }
        classify_sample(s, acc);
    });
    states += acc.evals;
    validated += acc.evals;
    let n = acc.evals;
    rep.acc.merge(acc);
    rep.scope("boundary table", n, done == table.len() as u64);
    rep.mc = Some((states, states, validated));
    rep.extra.insert("explanation".into(), json!("states = (text, style, tag, entry point) cases enumerated; transitions = one model evaluation per case; traces_validated_against_impl = resolver calls on the real code compared with the model"));
    rep.finish()
}
