//! C09 — emit then load returns the same tree (round trip).
use crate::engine::{par_blocks, Budget, StrSpace};
use crate::props::sweep::wall_cap;
use crate::report::{h64, Acc, Report, Tier, Violation};
use crate::subject::*;
use ordered_float::OrderedFloat;
use saphyr::{LoadableYamlNode, Mapping, Scalar, Yaml, YamlEmitter};
use serde_json::{json, Value};
use std::panic::{catch_unwind, AssertUnwindSafe};

pub const SIGMA_STR: &str = "a \n\t:#-?'\"\\[{,0.+~\ré";

fn words() -> Vec<String> {
    let mut v: Vec<String> = ["null", "Null", "true", "False", "0x1", "0o7", "0o17", ".inf", "+.inf", "-.INF", ".nan", "1e3", "1.5", "-0", "+1", "---", "...", "--- a", "... a", "yes", "no", "on", "y", "=", "<<", "!t", "&a", "*a", "%x", "@a", "`a", "| a", "> a", "- a", "? a", "a: b", "a #b", "a# b", "#a", "[a]", "{a}", "a,b", "\u{feff}", "\u{85}", "\u{2028}", "a\u{a0}", "\u{0}", "\u{7f}", "\u{1b}", "😀", "0x+1", "+-0", "inf", "NaN", "1_000", "0.", ".5", "1e", "é: è"].iter().map(|s| s.to_string()).collect();
    v.push("k".repeat(1025));
    v.push("\u{1}".repeat(200));
    v.push("\"".repeat(600));
    v.push("\t".repeat(700));
    v.push(format!("{}:", "k".repeat(1023)));
    v.push("é".repeat(1023));
    v.push("k".repeat(1023));
    v.push("k".repeat(1024));
    v.push("k".repeat(120));
    v.push(format!("{}\n", "k".repeat(200)));
    v
}

fn sc(s: &str) -> Yaml<'static> {
    Yaml::Value(Scalar::String(s.to_string().into()))
}
fn leaves(n: usize) -> Vec<Yaml<'static>> {
    let all: Vec<Yaml<'static>> = vec![
        Yaml::Value(Scalar::Null),
        Yaml::Value(Scalar::Boolean(true)),
        Yaml::Value(Scalar::Integer(-1)),
        Yaml::Value(Scalar::FloatingPoint(OrderedFloat(1.0))),
        sc("a"),
        sc("a\nb\n"),
        Yaml::Value(Scalar::Boolean(false)),
        Yaml::Value(Scalar::Integer(i64::MIN)),
        Yaml::Value(Scalar::Integer(i64::MAX)),
        Yaml::Value(Scalar::Integer(0)),
        Yaml::Value(Scalar::FloatingPoint(OrderedFloat(0.5))),
        Yaml::Value(Scalar::FloatingPoint(OrderedFloat(-0.0))),
        Yaml::Value(Scalar::FloatingPoint(OrderedFloat(1e300))),
        Yaml::Value(Scalar::FloatingPoint(OrderedFloat(1e-7))),
        Yaml::Value(Scalar::FloatingPoint(OrderedFloat(1e16))),
        Yaml::Value(Scalar::FloatingPoint(OrderedFloat(f64::INFINITY))),
        Yaml::Value(Scalar::FloatingPoint(OrderedFloat(f64::NEG_INFINITY))),
        Yaml::Value(Scalar::FloatingPoint(OrderedFloat(f64::NAN))),
        sc(""),
        sc("1"),
    ];
    all.into_iter().take(n).collect()
}

/// all trees with exactly `size` nodes over the given leaves; mapping keys must be distinct
fn trees(size: usize, lv: &[Yaml<'static>]) -> Vec<Yaml<'static>> {
    let mut out = vec![];
    if size == 1 {
        out.extend(lv.iter().cloned());
        out.push(Yaml::Sequence(vec![]));
        out.push(Yaml::Mapping(Mapping::new()));
        return out;
    }
    fn comps(n: usize) -> Vec<Vec<usize>> {
        if n == 0 {
            return vec![vec![]];
        }
        let mut o = vec![];
        for f in 1..=n {
            for mut r in comps(n - f) {
                let mut v = vec![f];
                v.append(&mut r);
                o.push(v);
            }
        }
        o
    }
    fn prod(parts: &[usize], lv: &[Yaml<'static>]) -> Vec<Vec<Yaml<'static>>> {
        if parts.is_empty() {
            return vec![vec![]];
        }
        let heads = trees(parts[0], lv);
        let tails = prod(&parts[1..], lv);
        let mut o = vec![];
        for h in &heads {
            for t in &tails {
                let mut v = vec![h.clone()];
                v.extend(t.iter().cloned());
                o.push(v);
            }
        }
        o
    }
    for parts in comps(size - 1) {
        for kids in prod(&parts, lv) {
            out.push(Yaml::Sequence(kids.clone()));
            if kids.len() % 2 == 0 {
                let mut m = Mapping::new();
                for c in kids.chunks(2) {
                    m.insert(c[0].clone(), c[1].clone());
                }
                if m.len() == kids.len() / 2 {
                    out.push(Yaml::Mapping(m));
                }
            }
        }
    }
    out
}

/// Model equality: same shape, scalar types distinguished, floats by value (NaN == NaN).
fn same(a: &Canon, b: &Canon) -> bool {
    match (a, b) {
        (Canon::Float(x), Canon::Float(y)) => {
            let (p, q) = (f64::from_bits(*x), f64::from_bits(*y));
            (p.is_nan() && q.is_nan()) || p == q
        }
        (Canon::Seq(x), Canon::Seq(y)) => x.len() == y.len() && x.iter().zip(y).all(|(p, q)| same(p, q)),
        (Canon::Map(x), Canon::Map(y)) => x.len() == y.len() && x.iter().zip(y).all(|(p, q)| same(&p.0, &q.0) && same(&p.1, &q.1)),
        _ => a == b,
    }
}

fn dump(y: &Yaml, compact: bool, multiline: bool) -> Result<String, String> {
    catch_unwind(AssertUnwindSafe(|| {
        let mut out = String::new();
        let r = {
            let mut e = YamlEmitter::new(&mut out);
            e.compact(compact);
            e.multiline_strings(multiline);
            e.dump(y)
        };
        r.map(|_| out).map_err(|e| format!("emit error: {e}"))
    }))
    .map_err(panic_msg)?
}

fn first_diff_kind(a: &Canon, b: &Canon) -> String {
    fn k(c: &Canon) -> &'static str {
        match c {
            Canon::Null => "null",
            Canon::Bool(_) => "bool",
            Canon::Int(_) => "int",
            Canon::Float(_) => "float",
            Canon::Str(_) => "str",
            Canon::Seq(_) => "seq",
            Canon::Map(_) => "map",
            Canon::Bad => "bad",
            _ => "other",
        }
    }
    match (a, b) {
        (Canon::Seq(x), Canon::Seq(y)) if x.len() == y.len() => x.iter().zip(y).find(|(p, q)| !same(p, q)).map(|(p, q)| first_diff_kind(p, q)).unwrap_or("seq".into()),
        (Canon::Map(x), Canon::Map(y)) if x.len() == y.len() => x.iter().zip(y).find(|(p, q)| !same(&p.0, &q.0) || !same(&p.1, &q.1)).map(|(p, q)| if !same(&p.0, &q.0) { format!("key:{}", first_diff_kind(&p.0, &q.0)) } else { first_diff_kind(&p.1, &q.1) }).unwrap_or("map".into()),
        (Canon::Str(_), Canon::Str(_)) => "string-content".into(),
        (Canon::Float(_), Canon::Float(_)) => "float-value".into(),
        (a, b) => format!("{}->{}", k(a), k(b)),
    }
}

pub fn eval(y: &Yaml, desc: &str, case: &Value, acc: &mut Acc) {
    let orig = canon_yaml(y);
    for (compact, multiline) in [(true, false), (false, false), (true, true), (false, true)] {
        acc.evals += 1;
        let cfg = format!("compact={compact} multiline={multiline}");
        let mk = |key: String, expected: String, observed: String, text: &str| {
            let mut c = case.clone();
            c["compact"] = json!(compact);
            c["multiline"] = json!(multiline);
            c["emitted"] = json!(text);
            Violation { key, expected, observed, case: c, size: text.len() + desc.len() }
        };
        let text = match dump(y, compact, multiline) {
            Ok(t) => t,
            Err(e) => {
                acc.violation(mk(format!("dump-fails pos={desc} multiline={multiline}"), "dump succeeds".into(), e, ""));
                continue;
            }
        };
        match load_canon(&text, NodeType::Yaml) {
            Err(m) => acc.violation(mk(format!("reload-panics pos={desc} multiline={multiline}"), "loads".into(), m, &text)),
            Ok(Err(e)) => acc.violation(mk(format!("reload-fails pos={desc} multiline={multiline} err={}", crate::props::sweep::classify_panic(&e.info)), format!("{orig:?}"), e.display, &text)),
            Ok(Ok(docs)) => {
                if docs.len() != 1 {
                    acc.violation(mk(format!("not-one-document pos={desc} multiline={multiline}"), "exactly one document".into(), format!("{} documents: {docs:?}", docs.len()), &text));
                    continue;
                }
                if !same(&orig, &docs[0]) {
                    acc.violation(mk(format!("roundtrip-differs pos={desc} multiline={multiline} what={}", first_diff_kind(&orig, &docs[0])), format!("{orig:?}"), format!("{:?}", docs[0]), &text));
                    continue;
                }
                // emitting the reloaded tree reproduces the text
                if let Ok(Ok(re)) = catch_unwind(AssertUnwindSafe(|| Yaml::load_from_str(&text))) {
                    match dump(&re[0], compact, multiline) {
                        Ok(t2) if t2 == text => {}
                        other => acc.violation(mk(format!("second-emit-differs pos={desc} multiline={multiline}"), text.clone(), format!("{other:?}"), &text)),
                    }
                }
            }
        }
        let _ = cfg;
        if acc.class(h64(&text)) && text.len() > 16 && text.len() < 60 && text.contains('\n') {
            acc.sample(json!({"emitted": text, "tree": format!("{orig:?}")}));
        }
    }
}

fn place(s: &str, pos: usize) -> Yaml<'static> {
    let v = sc(s);
    match pos {
        0 => v,
        1 => Yaml::Sequence(vec![v, sc("z")]),
        2 => {
            let mut m = Mapping::new();
            m.insert(v, sc("z"));
            m.insert(sc("y"), sc("z"));
            Yaml::Mapping(m)
        }
        3 => {
            let mut m = Mapping::new();
            m.insert(sc("k"), v);
            m.insert(sc("y"), sc("z"));
            Yaml::Mapping(m)
        }
        _ => {
            let mut m = Mapping::new();
            m.insert(v.clone(), v);
            Yaml::Sequence(vec![Yaml::Mapping(m), sc("z")])
        }
    }
}
/// boundary floats: whole numbers around 2^53 / 2^63 / 2^64, extreme exponents, subnormals
fn float_table() -> Vec<f64> {
    let mut v = vec![
        1e15, 1e16, 1e17, 1e18, 9.2e18, 9223372036854775808.0, 9223372036854777856.0, 1e19, 18446744073709551616.0, 1e20, 1e21, 1e22, 1e23, 1e100, 1e300, f64::MAX, f64::MIN_POSITIVE, 5e-324, 1e-5, 1e-7, 0.1, 0.3, 1.5, 2.5e-3, 123456.789, 9007199254740992.0, 9007199254740993.0, 4503599627370496.5,
        1.7976931348623157e308, 2.2250738585072014e-308, 100.0, 1000000.0, 0.000001, 12345678901234567890.0,
    ];
    let neg: Vec<f64> = v.iter().map(|x| -x).collect();
    v.extend(neg);
    v
}
fn place_y(v: Yaml<'static>, pos: usize) -> Yaml<'static> {
    match pos {
        0 => v,
        1 => Yaml::Sequence(vec![v, sc("z")]),
        2 => {
            let mut m = Mapping::new();
            m.insert(v, sc("z"));
            m.insert(sc("y"), sc("z"));
            Yaml::Mapping(m)
        }
        _ => {
            let mut m = Mapping::new();
            m.insert(sc("k"), v);
            m.insert(sc("y"), sc("z"));
            Yaml::Mapping(m)
        }
    }
}
/// a spine: `kinds[0]` is the outermost level; every level has a sibling so that indentation matters
fn spine(kinds: &[u8], leaf: usize) -> Yaml<'static> {
    let mut y = match leaf {
        0 => sc("a"),
        1 => sc("a\nb\n"),
        2 => Yaml::Value(Scalar::Integer(7)),
        _ => Yaml::Sequence(vec![]),
    };
    for k in kinds.iter().rev() {
        y = match k {
            0 => Yaml::Sequence(vec![y, sc("z")]),
            1 => Yaml::Sequence(vec![sc("z"), y]),
            2 => {
                let mut m = Mapping::new();
                m.insert(sc("k"), y);
                m.insert(sc("y"), sc("z"));
                Yaml::Mapping(m)
            }
            _ => {
                let mut m = Mapping::new();
                m.insert(y, sc("v"));
                m.insert(sc("y"), sc("z"));
                Yaml::Mapping(m)
            }
        };
    }
    y
}
fn spine_kinds(mut i: u64, d: usize) -> Vec<u8> {
    let mut v = vec![0u8; d];
    for k in (0..d).rev() {
        v[k] = (i % 4) as u8;
        i /= 4;
    }
    v
}
const POS: [&str; 5] = ["root", "seq-item", "map-key", "map-value", "nested-key+value"];

pub fn replay(case: &Value) -> Result<Acc, String> {
    let mut acc = Acc::default();
    if case["kind"] == "string" {
        let s: String = case["codepoints"].as_array().ok_or("no codepoints")?.iter().filter_map(|c| char::from_u32(c.as_u64().unwrap_or(0) as u32)).collect();
        let pos = case["pos"].as_u64().unwrap_or(0) as usize;
        eval(&place(&s, pos), POS[pos], case, &mut acc);
    } else if case["kind"] == "float" {
        let bits = case["bits"].as_u64().ok_or("no bits")?;
        let pos = case["pos"].as_u64().unwrap_or(0) as usize;
        eval(&place_y(Yaml::Value(Scalar::FloatingPoint(OrderedFloat(f64::from_bits(bits)))), pos), POS[pos], case, &mut acc);
    } else if case["kind"] == "spine" {
        let kinds: Vec<u8> = case["kinds"].as_array().ok_or("no kinds")?.iter().map(|k| k.as_u64().unwrap_or(0) as u8).collect();
        eval(&spine(&kinds, case["leaf"].as_u64().unwrap_or(0) as usize), "spine", case, &mut acc);
    } else {
        let n = case["leaves"].as_u64().unwrap_or(6) as usize;
        let size = case["size"].as_u64().unwrap_or(1) as usize;
        let idx = case["index"].as_u64().unwrap_or(0) as usize;
        let ts = trees(size, &leaves(n));
        let t = ts.get(idx).ok_or("tree index out of range")?;
        eval(t, "tree", case, &mut acc);
    }
    Ok(acc)
}

pub fn check(tier: Tier) -> i32 {
    let mut rep = Report::new("C09", tier, "model_checking");
    rep.rule = "abstract values: (1) every string of length <= L over the 20-symbol alphabet {a space LF tab : # - ? ' \" \\ [ { , 0 . + ~ CR é} plus ~60 type-like / indicator / boundary words (incl. a 1025-character string), each placed at root, as sequence item, mapping key, mapping value and as key+value of a mapping nested in a sequence; (2) every tree of <= s nodes over a leaf alphabet of nulls, booleans, boundary integers, floats (1.0, -0.0, 1e300, 1e-7, 1e16, inf, -inf, NaN), strings, empty collections, with scalar and collection keys; (3) 68 boundary floats (whole numbers around 2^53, 2^63, 2^64, extreme exponents, subnormals; both signs) at 4 positions; (4) every nesting chain ('spine') of depth <= D over 4 level kinds, each level with a sibling, x 4 innermost leaves; each under the 4 emitter settings {compact} x {multiline_strings}. Oracle: dump succeeds, the text loads to exactly one document equal to the original (scalar types distinguished, floats by value, NaN == NaN, order kept), and dumping the reloaded tree gives the same text. Non-trivial: every dump; distinct: distinct emitted texts.".into();
    rep.assumptions = vec!["trees contain no Alias / BadValue / Representation nodes (outside the property's domain)".into()];
    let budget = Budget::new(wall_cap(tier));
    rep.mandatory_scopes = 2;
    let (l, nl, s) = match tier {
        Tier::Quick => (4usize, 10usize, 5usize),
        Tier::Thorough => (5, 8, 6),
    };
    let sp = StrSpace::chars("strings", SIGMA_STR, l);
    let mut strs: Vec<String> = (0..sp.len()).map(|i| sp.string_at(i)).collect();
    strs.extend(words());
    let (acc, done) = par_blocks(strs.len() as u64, &budget, |b, acc| {
        let s = &strs[b as usize];
        for pos in 0..POS.len() {
            let case = json!({"kind": "string", "string": s, "codepoints": s.chars().map(|c| c as u32).collect::<Vec<_>>(), "pos": pos});
            eval(&place(s, pos), POS[pos], &case, acc);
        }
    });
    let n1 = acc.evals;
    rep.acc.merge(acc);
    rep.scope(&format!("strings <= {l} + words ({}) x 5 positions x 4 settings", strs.len()), n1, done == strs.len() as u64);
    let mut states = strs.len() as u64 * 5;
    for size in 1..=s {
        // the full leaf alphabet for small trees, the first `nl` leaves for the largest ones
        let n_leaves = if size <= 3 { 20 } else { nl };
        let ts = trees(size, &leaves(n_leaves));
        let (acc, done) = par_blocks(ts.len() as u64, &budget, |b, acc| {
            let case = json!({"kind": "tree", "leaves": n_leaves, "size": size, "index": b, "tree": format!("{:?}", canon_yaml(&ts[b as usize]))});
            eval(&ts[b as usize], "tree", &case, acc);
        });
        let n = acc.evals;
        states += ts.len() as u64;
        rep.acc.merge(acc);
        rep.scope(&format!("trees of {size} nodes over {n_leaves} leaves ({}) x 4 settings", ts.len()), n, done == ts.len() as u64);
    }
    // boundary floats at four positions
    let ft = float_table();
    let (acc, done) = par_blocks(ft.len() as u64, &budget, |b, acc| {
        let f = ft[b as usize];
        for pos in 0..4 {
            let case = json!({"kind": "float", "bits": f.to_bits(), "value": format!("{f:e}"), "pos": pos});
            eval(&place_y(Yaml::Value(Scalar::FloatingPoint(OrderedFloat(f))), pos), POS[pos], &case, acc);
        }
    });
    let n = acc.evals;
    states += ft.len() as u64 * 4;
    rep.acc.merge(acc);
    rep.scope(&format!("boundary floats ({}) x 4 positions x 4 settings", ft.len()), n, done == ft.len() as u64);
    // spines: every nesting chain of depth <= D over 4 level kinds x 4 innermost leaves
    let dmax = if tier == Tier::Quick { 7 } else { 9 };
    for d in 1..=dmax {
        let total = 4u64.pow(d as u32);
        let (acc, done) = par_blocks(total, &budget, |b, acc| {
            let kinds = spine_kinds(b, d);
            for leaf in 0..4 {
                let case = json!({"kind": "spine", "kinds": kinds, "leaf": leaf});
                eval(&spine(&kinds, leaf), "spine", &case, acc);
            }
        });
        let n = acc.evals;
        states += total * 4;
        rep.acc.merge(acc);
        rep.scope(&format!("spines of depth {d}: 4 level kinds (first/last sequence item, mapping value, mapping key; each with a sibling) x 4 innermost leaves ({}) x 4 settings", total * 4), n, done == total);
    }
    let cases = rep.acc.evals;
    rep.mc = Some((states.max(1), cases.max(1), cases * 2));
    rep.extra.insert("explanation".into(), json!("states = abstract trees; transitions = (tree, emitter setting) dumps; traces_validated = dump + reload (+ second dump) on the real emitter and loader compared with the original tree"));
    rep.finish()
}
