//! C10 — all input back-ends behave identically.
use super::sweep::*;
use crate::engine::Budget;
use crate::report::{Acc, Report, Tier};
use serde_json::Value;

pub fn check(tier: Tier) -> i32 {
    let mut rep = Report::new("C10", tier, "exploration");
    rep.rule = "every string of the listed scopes is parsed (iterator) with StrInput, BufferedInput and the harness's contract-conforming Input with capacities 8/16/64/128 in both raw-read flavours; the full observation (events with values, styles, anchors, tags, every span's index/line/col, error message and marker) must equal StrInput's. Non-trivial: more than the 4 frame events or an error; distinct: distinct (event-kind sentence, error message).".into();
    rep.assumptions = vec!["the harness Input implementation honours the Input contract (it panics where BufferedInput would)".into()];
    let plan = plan(tier, 6, 7, 3, 4);
    rep.mandatory_scopes = plan.spaces.len();
    let budget = Budget::new(wall_cap(tier));
    run_plan(&mut rep, &plan, &budget, |s, acc| c10_eval(s, acc));
    run_long(&mut rep, tier, &budget, |s, acc| c10_eval(s, acc));
    rep.finish()
}
pub fn replay(case: &Value) -> Result<Acc, String> {
    replay_with(case, |s, acc| c10_eval(s, acc))
}
