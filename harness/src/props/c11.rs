//! C11 — nesting depth cannot crash the process (engine E4: process-isolated scenario grid).
use crate::isolate::{announce, child_finish, on_stack, run_grid};
use crate::props::sweep::wall_cap;
use crate::report::{h64, Acc, Report, Tier, Violation};
use saphyr::{LoadableYamlNode, Scalar, Yaml, YamlEmitter};
use saphyr_parser::{Event, Parser, Span, SpannedEventReceiver};
use serde_json::{json, Value};
use std::collections::BTreeMap;
use std::hash::{Hash, Hasher};

pub const SHAPES: [&str; 17] = ["block-seq", "block-seq-nl", "block-map-nl", "explicit-key", "flow-seq", "flow-map", "flow-alternating", "seq-of-explicit-key", "built-seq", "built-map-value", "built-map-key", "block-seq-then-error", "block-seq-no-final-break", "flow-seq-empty-key-pairs", "flow-seq-pair-values", "flow-map-explicit-keys", "block-seq-then-block-scalar"];
pub const APIS: [&str; 9] = ["iter", "push", "load+forget", "load+drop", "drop", "clone", "eq", "hash", "emit"];
pub const DEPTHS: [usize; 10] = [1, 10, 100, 255, 256, 1000, 2000, 10_000, 30_000, 300_000];

/// The finding key names the depth class, not the exact grid depth: where exactly a recursive path
/// overflows an 8 MiB stack moves with frame sizes (even with a rebuild of the harness, which
/// instantiates drop/clone glue), while "recurses once per level and dies somewhere beyond 10^4
/// levels" is the defect. A crash below 10^4 levels is a different (worse) finding.
fn depth_class(min_depth: usize) -> &'static str {
    if min_depth >= 10_000 {
        "depth>=10^4"
    } else {
        "depth<10^4"
    }
}

fn applicable(shape: usize, api: usize, depth: usize, tier: Tier) -> bool {
    let built = (8..=10).contains(&shape);
    // the two extra text shapes are only driven through the pull iterator (push/load recurse per
    // level on any block nesting: known findings of the block-seq shape)
    if (11..=12).contains(&shape) && api != 0 {
        return false;
    }
    // more flow shapes (the flow-depth limit must hold however the levels are spelled): cheap while
    // the limit holds, so every depth is a grid point for every text API in both tiers
    if (13..=15).contains(&shape) {
        return api < 4 && depth != 10_000;
    }
    // a block scalar under N nested sequences (its content N*2 columns deep): the pull iterator at
    // every depth, push/load where block nesting does not overflow the stack yet
    if shape == 16 {
        return depth != 10_000 && (api == 0 || (api < 4 && depth <= 2000));
    }
    // constructed trees exercise the tree operations in isolation; text shapes exercise parsing/loading
    if built != (api >= 4) {
        return false;
    }
    // indentation-per-level shapes are quadratic in size
    if (shape == 1 || shape == 2) && depth > if tier == Tier::Quick { 2000 } else { 10_000 } {
        return false;
    }
    // depth 10^4 is only a grid point for the quadratic shapes (which cannot go to 3*10^4)
    if !(shape == 1 || shape == 2) && depth == 10_000 {
        return false;
    }
    // nested mapping keys: building the tree hashes every key on insertion, which is quadratic in
    // the depth (a cost of the harness's construction, not of the subject) - stop at 10^4
    if shape == 10 && depth > 2000 {
        return false;
    }
    // quick tier: depth 3*10^5 only for the pull iterator (cheap: linear text, no tree), which must
    // not recurse at all
    if tier == Tier::Quick && depth > 30_000 && api != 0 {
        return false;
    }
    true
}

pub fn text_for(shape: usize, d: usize) -> String {
    match shape {
        0 => format!("{}a\n", "- ".repeat(d)),
        1 => {
            let mut s = String::new();
            for k in 0..d {
                s.push_str(&" ".repeat(k));
                s.push_str("-\n");
            }
            s.push_str(&" ".repeat(d));
            s.push_str("a\n");
            s
        }
        2 => {
            let mut s = String::new();
            for k in 0..d {
                s.push_str(&" ".repeat(k));
                s.push_str("k:\n");
            }
            s.push_str(&" ".repeat(d));
            s.push_str("a\n");
            s
        }
        3 => format!("{}a", "? ".repeat(d)),
        4 => format!("{}{}", "[".repeat(d), "]".repeat(d)),
        5 => format!("{}b{}", "{a: ".repeat(d), "}".repeat(d)),
        6 => {
            let mut s = String::new();
            let mut close = String::new();
            for k in 0..d {
                if k % 2 == 0 {
                    s.push('[');
                    close.insert(0, ']');
                } else {
                    s.push_str("{a: ");
                    close.insert(0, '}');
                }
            }
            s.push('b');
            s.push_str(&close);
            s
        }
        7 => format!("{}a", "- ? ".repeat(d)),
        11 => format!("{}[", "- ".repeat(d)),
        16 => format!("{}|\n{}a\n{}b\n", "- ".repeat(d), " ".repeat(2 * d), " ".repeat(2 * d)),
        13 => format!("{}y{}", "[: x, ".repeat(d), "]".repeat(d)),
        14 => format!("{}b{}", "[a: ".repeat(d), "]".repeat(d)),
        15 => format!("{}a{}", "{? ".repeat(d), "}".repeat(d)),
        _ => format!("{}a", "- ".repeat(d)),
    }
}

fn built(shape: usize, d: usize) -> Yaml<'static> {
    let mut y = Yaml::Value(Scalar::String("a".into()));
    for _ in 0..d {
        y = match shape {
            8 => Yaml::Sequence(vec![y]),
            9 => {
                let mut m = saphyr::Mapping::new();
                m.insert(Yaml::Value(Scalar::String("k".into())), y);
                Yaml::Mapping(m)
            }
            _ => {
                let mut m = saphyr::Mapping::new();
                m.insert(y, Yaml::Value(Scalar::Null));
                Yaml::Mapping(m)
            }
        };
    }
    y
}

struct Null(u64);
impl<'a> SpannedEventReceiver<'a> for Null {
    fn on_event(&mut self, _: Event<'a>, _: Span) {
        self.0 += 1;
    }
}

pub fn grid(tier: Tier) -> Vec<(usize, usize, usize)> {
    let mut v = vec![];
    for s in 0..SHAPES.len() {
        for a in 0..APIS.len() {
            let depths: Vec<usize> = match std::env::var("VP_C11_DEPTHS") {
                Ok(v) => v.split(',').filter_map(|x| x.parse().ok()).collect(),
                Err(_) => DEPTHS.to_vec(),
            };
            for &d in &depths {
                if applicable(s, a, d, tier) {
                    v.push((s, a, d));
                }
            }
        }
    }
    v
}

/// Child: runs scenario (shape, api, depth); returns "ok" / "err" or panics.
fn run_scenario(shape: usize, api: usize, depth: usize) -> &'static str {
    if !(8..=10).contains(&shape) {
        let text = text_for(shape, depth);
        match api {
            0 => {
                let mut p = Parser::new_from_str(&text);
                loop {
                    match p.next_event() {
                        None => return "ok",
                        Some(Ok(_)) => {}
                        Some(Err(_)) => return "err",
                    }
                }
            }
            1 => {
                let mut p = Parser::new_from_str(&text);
                let mut r = Null(0);
                if p.load(&mut r, true).is_ok() {
                    "ok"
                } else {
                    "err"
                }
            }
            2 => match Yaml::load_from_str(&text) {
                Ok(d) => {
                    std::mem::forget(d);
                    "ok"
                }
                Err(_) => "err",
            },
            _ => match Yaml::load_from_str(&text) {
                Ok(d) => {
                    drop(d);
                    "ok"
                }
                Err(_) => "err",
            },
        }
    } else {
        let y = built(shape, depth);
        match api {
            4 => {
                drop(y);
            }
            5 => {
                let c = y.clone();
                std::mem::forget(c);
                std::mem::forget(y);
            }
            6 => {
                // compare with an independently built twin (both forgotten afterwards)
                let t = built(shape, depth);
                let e = y == t;
                std::mem::forget(t);
                std::mem::forget(y);
                assert!(e);
            }
            7 => {
                let mut h = crate::report::Fnv::default();
                y.hash(&mut h);
                let _ = h.finish();
                std::mem::forget(y);
            }
            _ => {
                let mut out = String::new();
                let r = YamlEmitter::new(&mut out).dump(&y);
                std::mem::forget(y);
                return if r.is_ok() { "ok" } else { "err" };
            }
        }
        "ok"
    }
}

pub fn worker(grid_name: &str, from: u64, to: u64) {
    let tier = if grid_name == "thorough" { Tier::Thorough } else { Tier::Quick };
    let g = grid(tier);
    let mut acc = Acc::default();
    for i in from..to.min(g.len() as u64) {
        let (s, a, d) = g[i as usize];
        announce(i);
        let (tx, rx) = std::sync::mpsc::channel();
        on_stack(8 << 20, move || {
            let r = std::panic::catch_unwind(|| run_scenario(s, a, d));
            let _ = tx.send(r.map_err(crate::subject::panic_msg));
        });
        acc.evals += 1;
        match rx.try_recv() {
            Ok(Ok(r)) => {
                acc.count(&format!("outcome:{r}"), 1);
                acc.class(h64(&(s, a, d, r)));
                if d == 256 {
                    acc.sample(json!({"shape": SHAPES[s], "api": APIS[a], "depth": d, "outcome": r}));
                }
            }
            Ok(Err(msg)) => acc.violation(Violation { key: format!("panic shape={} api={}", SHAPES[s], APIS[a]), expected: "success or an error value".into(), observed: format!("panic at depth {d}: {msg}"), case: json!({"kind": "scenario", "shape": SHAPES[s], "api": APIS[a], "depth": d}), size: d }),
            Err(_) => acc.machinery_errors.push("scenario thread vanished".into()),
        }
    }
    child_finish(&acc);
}

pub fn check(tier: Tier) -> i32 {
    let mut rep = Report::new("C11", tier, "exploration");
    rep.rule = "finite grid of nesting shapes {block sequence on one line, block sequence / block mapping with one indentation level per line, explicit keys, flow sequence, flow mapping, alternating flow, sequence of explicit keys, flow sequences of empty-key pairs '[: x, [: x, ...', of pair values '[a: [a: ...', flow mappings of explicit keys '{? {? ...', a literal block scalar under N nested block sequences} x depths {1,10,100,255,256,1000,2000,3*10^4,3*10^5} x {iterator, push into a null receiver, load_from_str + forget, load_from_str + drop}, and iteratively constructed trees {nested sequences, nested mapping values, nested mapping keys} x the same depths x {drop, clone, ==, hash, emit}; every scenario runs in its own child process on a thread with an 8 MiB stack; a child that dies by a signal (or hangs) is re-run alone to confirm. Oracle: normal exit with success or an Err value. Non-trivial/distinct: distinct (shape, api, depth, outcome).".into();
    rep.assumptions = vec!["'any depth that fits in memory' is decided on a finite grid up to depth 3*10^5 (3*10^4 in the quick tier, 10^4 for the quadratic-size shapes, 2000 for constructed nested keys whose construction is quadratic) on an 8 MiB stack".into()];
    rep.mandatory_scopes = 1;
    let g = grid(tier);
    let deadline = std::time::Instant::now() + std::time::Duration::from_secs(wall_cap(tier));
    let res = run_grid("C11", tier.name(), g.len() as u64, 1, 60, deadline);
    let n = res.acc.evals;
    rep.acc.merge(res.acc);
    // aggregate abnormal scenarios per (shape, api): smallest crashing depth
    let mut per: BTreeMap<(usize, usize, &'static str), Vec<usize>> = BTreeMap::new();
    for (i, how) in &res.abnormal {
        let (s, a, d) = g[*i as usize];
        per.entry((s, a, how.kind())).or_default().push(d);
    }
    for ((s, a, kind), mut ds) in per {
        ds.sort();
        let d = ds[0];
        rep.acc.evals += ds.len() as u64;
        rep.acc.violation(Violation {
            key: format!("{kind} shape={} api={} {}", SHAPES[s], APIS[a], depth_class(d)),
            expected: "success or an error value".into(),
            observed: format!("process {kind} (stack overflow / signal) at depths {ds:?}"),
            case: json!({"kind": "scenario", "shape": SHAPES[s], "api": APIS[a], "depth": d}),
            size: d,
        });
    }
    rep.scope(&format!("scenario grid ({} scenarios)", g.len()), n + res.abnormal.len() as u64, res.completed);
    rep.finish()
}

pub fn replay(case: &Value) -> Result<Acc, String> {
    // re-run that single scenario in a child process
    let s = SHAPES.iter().position(|x| Some(*x) == case["shape"].as_str()).ok_or("bad shape")?;
    let a = APIS.iter().position(|x| Some(*x) == case["api"].as_str()).ok_or("bad api")?;
    let d = case["depth"].as_u64().ok_or("bad depth")? as usize;
    let g = grid(Tier::Thorough);
    let i = g.iter().position(|x| *x == (s, a, d)).ok_or("scenario not in the grid")?;
    let deadline = std::time::Instant::now() + std::time::Duration::from_secs(300);
    // run exactly scenario i
    let exe_grid = "thorough";
    let mut acc = Acc::default();
    let r = crate::isolate::run_grid_range("C11", exe_grid, i as u64, i as u64 + 1, 60, deadline);
    acc.merge(r.acc);
    for (_, how) in r.abnormal {
        acc.violation(Violation { key: format!("{} shape={} api={} {}", how.kind(), SHAPES[s], APIS[a], depth_class(d)), expected: "success or an error value".into(), observed: how.name(), case: case.clone(), size: d });
    }
    Ok(acc)
}
