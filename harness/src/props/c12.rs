//! C12 — reported positions are true positions in the input.
use super::sweep::*;
use crate::engine::Budget;
use crate::report::{Acc, Report, Tier};
use serde_json::Value;

pub fn check(tier: Tier) -> i32 {
    let mut rep = Report::new("C12", tier, "exploration");
    rep.rule = "every string of the listed scopes is parsed with StrInput and BufferedInput; every marker of every event span and error is compared with an independent line/column count; span ordering, parent/child nesting, plain-scalar span text, quoted-scalar quote positions, the error Display suffix and the spans of MarkedYaml/MarkedYamlOwned nodes (lock-step walk against the event stream) are checked. Non-trivial: a marker beyond line 1 or more than 5 events; distinct: distinct (event kinds, line/col vector).".into();
    rep.assumptions = vec!["U+0000 ends the stream: positions at or after the first NUL are only required to lie within the input".into(), "synthesized null scalars ('~' not present in the text) are exempt from the span-text rule".into()];
    let plan = plan(tier, 6, 8, 3, 4);
    rep.mandatory_scopes = plan.spaces.len();
    let budget = Budget::new(wall_cap(tier));
    run_plan(&mut rep, &plan, &budget, |s, acc| c12_eval(s, acc));
    run_long(&mut rep, tier, &budget, |s, acc| c12_eval(s, acc));
    rep.finish()
}
pub fn replay(case: &Value) -> Result<Acc, String> {
    replay_with(case, |s, acc| c12_eval(s, acc))
}
