//! C13 — every JSON text loads with its JSON meaning (E2: JSON values x whitespace choices).
use crate::engine::{explore, par_blocks, Budget, Ch};
use crate::models::core_schema::{resolve, M};
use crate::props::sweep::wall_cap;
use crate::report::{h64, Acc, Report, Tier, Violation};
use crate::subject::*;
use serde_json::{json, Value};

#[derive(Clone, Debug, PartialEq)]
pub enum J {
    Null,
    Bool(bool),
    /// number as written
    Num(&'static str),
    /// (JSON spelling without quotes, decoded value)
    Str(String, String),
    Arr(Vec<J>),
    Obj(Vec<((String, String), J)>),
}

const NUMS: [&str; 13] = ["0", "-1", "-0", "1.5", "1e3", "1E+2", "-2.5e-3", "9223372036854775807", "12345678901234567890", "1234567890123456", "3.14159265358979", "1E5", "1234567890123456.7890123456789012"];
/// more numbers, used alone and as array item / object value (not in the value trees)
const NUMS2: [&str; 30] = ["5e-324", "1e-310", "2.225073858507201e-308", "2.2250738585072014e-308", "1.7976931348623157e308", "0.1", "1e22", "1e23", "-9223372036854775808", "9223372036854775808", "-9223372036854775809", "18446744073709551615", "0e0", "0E-0", "1e+0", "123e-2", "0.000001", "1.0E+2", "-0.0", "0.0", "1e-7", "100", "1.5E300", "4.9E-324", "1e-320", "-1e-320", "10000000000000000000000", "0.30000000000000004", "9007199254740993", "123456789.123456789e-5"];
/// (spelling, decoded)
const SYMS: [(&str, &str); 17] = [("a", "a"), (" ", " "), (":", ":"), ("#", "#"), (",", ","), ("[", "["), ("{", "{"), ("\\\"", "\""), ("\\\\", "\\"), ("/", "/"), ("\\/", "/"), ("\\n", "\n"), ("\\t", "\t"), ("é", "é"), ("\\u00e9", "é"), ("-", "-"), ("'", "'")];

fn leaves() -> Vec<J> {
    let mut v = vec![J::Null, J::Bool(true), J::Bool(false)];
    for n in NUMS {
        v.push(J::Num(n));
    }
    for (sp, d) in [("a", "a"), ("", ""), ("null", "null"), ("1", "1"), ("a: b", "a: b"), ("\\u00e9\\n", "é\n")] {
        v.push(J::Str(sp.into(), d.into()));
    }
    v
}
fn small_leaves() -> Vec<J> {
    vec![J::Null, J::Bool(true), J::Num("-1"), J::Num("1.5"), J::Str("a".into(), "a".into()), J::Str("".into(), "".into())]
}

/// all values with exactly `size` nodes (keys are not nodes)
fn values(size: usize, lv: &[J]) -> Vec<J> {
    let mut out = vec![];
    if size == 1 {
        out.extend(lv.iter().cloned());
        out.push(J::Arr(vec![]));
        out.push(J::Obj(vec![]));
        return out;
    }
    fn comps(n: usize) -> Vec<Vec<usize>> {
        if n == 0 {
            return vec![vec![]];
        }
        let mut o = vec![];
        for f in 1..=n {
            for mut r in comps(n - f) {
                let mut v = vec![f];
                v.append(&mut r);
                o.push(v);
            }
        }
        o
    }
    fn prod(parts: &[usize], lv: &[J]) -> Vec<Vec<J>> {
        if parts.is_empty() {
            return vec![vec![]];
        }
        let heads = values(parts[0], lv);
        let tails = prod(&parts[1..], lv);
        let mut o = vec![];
        for h in &heads {
            for t in &tails {
                let mut v = vec![h.clone()];
                v.extend(t.iter().cloned());
                o.push(v);
            }
        }
        o
    }
    let keys = [("a", "a"), ("", ""), ("k 1", "k 1"), ("\\\"q\\\"", "\"q\""), ("1", "1")];
    for parts in comps(size - 1) {
        for kids in prod(&parts, lv) {
            out.push(J::Arr(kids.clone()));
            if kids.len() <= keys.len() {
                out.push(J::Obj(kids.iter().enumerate().map(|(i, k)| ((keys[i].0.to_string(), keys[i].1.to_string()), k.clone())).collect()));
            }
        }
    }
    out
}

fn expect(j: &J) -> Canon {
    match j {
        J::Null => Canon::Null,
        J::Bool(b) => Canon::Bool(*b),
        J::Num(t) => {
            let is_int = !t.contains(['.', 'e', 'E']);
            if is_int {
                if let Ok(i) = t.parse::<i64>() {
                    return Canon::Int(i);
                }
            }
            match resolve(t).0 {
                M::Float(f) => Canon::Float(float_bits(f)),
                M::Int(_) => Canon::Float(float_bits(t.parse::<f64>().unwrap())),
                other => panic!("JSON number {t} is not a core-schema number: {other:?}"),
            }
        }
        J::Str(_, d) => Canon::Str(d.clone()),
        J::Arr(v) => Canon::Seq(v.iter().map(expect).collect()),
        J::Obj(p) => Canon::Map(p.iter().map(|(k, v)| (Canon::Str(k.1.clone()), expect(v))).collect()),
    }
}

struct W<'a> {
    out: String,
    ch: &'a mut Ch,
    mode: usize,
    depth: usize,
}
impl<'a> W<'a> {
    /// insignificant whitespace between two tokens
    fn ws(&mut self) {
        if self.mode != 0 {
            return;
        }
        match self.ch.pick(8) {
            0 => {}
            1 => self.out.push(' '),
            2 => self.out.push('\n'),
            3 => self.out.push('\t'),
            4 => self.out.push_str("\r\n"),
            5 => self.out.push_str("\n  "),
            6 => self.out.push_str("\t "),
            _ => self.out.push_str(" \t"),
        }
    }
    fn nl(&mut self) {
        match self.mode {
            1 | 2 | 3 => {
                self.out.push('\n');
                for _ in 0..self.depth {
                    self.out.push_str(["", "  ", "    ", "\t"][self.mode]);
                }
            }
            _ => {}
        }
    }
    fn val(&mut self, j: &J) {
        match j {
            J::Null => self.out.push_str("null"),
            J::Bool(b) => self.out.push_str(if *b { "true" } else { "false" }),
            J::Num(t) => self.out.push_str(t),
            J::Str(sp, _) => {
                self.out.push('"');
                self.out.push_str(sp);
                self.out.push('"');
            }
            J::Arr(v) => {
                self.out.push('[');
                self.depth += 1;
                for (i, x) in v.iter().enumerate() {
                    if i > 0 {
                        self.ws();
                        self.out.push(',');
                    }
                    self.nl();
                    self.ws();
                    self.val(x);
                }
                self.depth -= 1;
                if !v.is_empty() {
                    self.nl();
                }
                self.ws();
                self.out.push(']');
            }
            J::Obj(p) => {
                self.out.push('{');
                self.depth += 1;
                for (i, (k, x)) in p.iter().enumerate() {
                    if i > 0 {
                        self.ws();
                        self.out.push(',');
                    }
                    self.nl();
                    self.ws();
                    self.out.push('"');
                    self.out.push_str(&k.0);
                    self.out.push('"');
                    self.ws();
                    self.out.push(':');
                    if self.mode != 0 {
                        self.out.push(' ');
                    }
                    self.ws();
                    self.val(x);
                }
                self.depth -= 1;
                if !p.is_empty() {
                    self.nl();
                }
                self.ws();
                self.out.push('}');
            }
        }
    }
}

pub fn serialise(j: &J, ch: &mut Ch) -> String {
    let mode = ch.pick(4);
    let mut w = W { out: String::new(), ch, mode, depth: 0 };
    w.ws();
    w.val(j);
    w.ws();
    if w.ch.flag() {
        w.out.push('\n');
    }
    w.out
}

fn j_json(j: &J) -> Value {
    match j {
        J::Null => json!(null),
        J::Bool(b) => json!({"bool": b}),
        J::Num(t) => json!({"num": t}),
        J::Str(s, d) => json!({"str": s, "decoded": d}),
        J::Arr(v) => json!({"arr": v.iter().map(j_json).collect::<Vec<_>>()}),
        J::Obj(p) => json!({"obj": p.iter().map(|(k, v)| json!([k.0, k.1, j_json(v)])).collect::<Vec<_>>()}),
    }
}
/// deep values: kind 0 arrays, 1 objects, 2 alternating, 3 arrays with a sibling before and after
pub fn spine(kind: usize, depth: usize) -> J {
    let mut j = J::Num("1");
    for lvl in (0..depth).rev() {
        let k: (String, String) = ("k".into(), "k".into());
        j = match kind {
            0 => J::Arr(vec![j]),
            1 => J::Obj(vec![(k, j)]),
            2 => {
                if lvl % 2 == 0 {
                    J::Arr(vec![j])
                } else {
                    J::Obj(vec![(k, j)])
                }
            }
            _ => J::Arr(vec![J::Num("0"), j, J::Str("a".into(), "a".into())]),
        };
    }
    j
}
fn j_parse(v: &Value) -> Result<J, String> {
    if v.is_null() {
        return Ok(J::Null);
    }
    if let Some(sp) = v.get("spine") {
        return Ok(spine(sp[0].as_u64().unwrap_or(0) as usize, sp[1].as_u64().unwrap_or(1) as usize));
    }
    if let Some(b) = v.get("bool") {
        return Ok(J::Bool(b.as_bool().unwrap_or(false)));
    }
    if let Some(n) = v.get("num") {
        let n = n.as_str().unwrap_or("");
        return NUMS.iter().chain(NUMS2.iter()).find(|x| **x == n).map(|x| J::Num(x)).ok_or_else(|| format!("unknown number {n}"));
    }
    if let Some(s) = v.get("str") {
        return Ok(J::Str(s.as_str().unwrap_or("").into(), v["decoded"].as_str().unwrap_or("").into()));
    }
    if let Some(a) = v.get("arr") {
        return Ok(J::Arr(a.as_array().ok_or("arr")?.iter().map(j_parse).collect::<Result<_, _>>()?));
    }
    if let Some(o) = v.get("obj") {
        let mut p = vec![];
        for e in o.as_array().ok_or("obj")? {
            p.push(((e[0].as_str().unwrap_or("").into(), e[1].as_str().unwrap_or("").into()), j_parse(&e[2])?));
        }
        return Ok(J::Obj(p));
    }
    Err(format!("bad json value {v}"))
}

pub fn eval(j: &J, ch: &mut Ch, acc: &mut Acc) {
    let text = serialise(j, ch);
    acc.evals += 1;
    let want = expect(j);
    let case = || json!({"kind": "json", "value": j_json(j), "choices": ch.taken(), "text": text});
    // the same text through StrInput must load identically
    {
        use saphyr::LoadableYamlNode;
        let via_str = std::panic::catch_unwind(std::panic::AssertUnwindSafe(|| saphyr::Yaml::load_from_parser(&mut saphyr_parser::Parser::new_from_str(&text)).map(|d| d.iter().map(canon_yaml).collect::<Vec<_>>()).map_err(|e| e.info().to_string())));
        match via_str {
            Ok(Ok(d)) if d.len() == 1 && d[0] == want => {}
            other => {
                let ws = if text.contains('\t') { "tab" } else if text.contains('\r') { "crlf" } else if text.contains('\n') { "lf" } else { "none" };
                acc.violation(Violation { key: format!("json-via-strinput ws={ws} ok={}", matches!(other, Ok(Ok(_)))), expected: format!("{want:?}"), observed: format!("{other:?}"), case: case(), size: text.len() });
            }
        }
    }
    match load_canon(&text, NodeType::Yaml) {
        Err(m) => acc.violation(Violation { key: "panic".into(), expected: format!("{want:?}"), observed: format!("panic: {m}"), case: case(), size: text.len() }),
        Ok(Err(e)) => {
            let ws = if text.contains('\t') { "tab" } else if text.contains('\r') { "crlf" } else if text.contains('\n') { "lf" } else { "none" };
            acc.violation(Violation { key: format!("json-rejected err={} ws={ws}", crate::props::sweep::classify_panic(&e.info)), expected: format!("{want:?}"), observed: e.display, case: case(), size: text.len() })
        }
        Ok(Ok(docs)) => {
            if docs.len() != 1 || docs[0] != want {
                let what = if docs.len() != 1 { "document-count".to_string() } else { diff_kind(&want, &docs[0]) };
                acc.violation(Violation { key: format!("json-meaning what={what}"), expected: format!("{want:?}"), observed: format!("{docs:?}"), case: case(), size: text.len() });
            }
        }
    }
    if acc.class(h64(&text)) && text.len() > 14 && ch.log.iter().filter(|c| c.1 != 0).count() >= 2 {
        acc.sample(json!({"text": text}));
    }
}
fn diff_kind(a: &Canon, b: &Canon) -> String {
    match (a, b) {
        (Canon::Seq(x), Canon::Seq(y)) if x.len() == y.len() => x.iter().zip(y).find(|(p, q)| p != q).map(|(p, q)| diff_kind(p, q)).unwrap_or("seq".into()),
        (Canon::Map(x), Canon::Map(y)) if x.len() == y.len() => x.iter().zip(y).find(|(p, q)| p != q).map(|(p, q)| if p.0 != q.0 { format!("key:{}", diff_kind(&p.0, &q.0)) } else { diff_kind(&p.1, &q.1) }).unwrap_or("map".into()),
        (Canon::Str(_), Canon::Str(_)) => "string-content".into(),
        (a, b) => format!("{}->{}", kind(a), kind(b)),
    }
}
fn kind(c: &Canon) -> &'static str {
    match c {
        Canon::Null => "null",
        Canon::Bool(_) => "bool",
        Canon::Int(_) => "int",
        Canon::Float(_) => "float",
        Canon::Str(_) => "str",
        Canon::Seq(_) => "seq",
        Canon::Map(_) => "map",
        _ => "other",
    }
}

pub fn replay(case: &Value) -> Result<Acc, String> {
    let mut acc = Acc::default();
    let j = j_parse(&case["value"])?;
    let choices: Vec<u32> = case["choices"].as_array().ok_or("no choices")?.iter().map(|c| c.as_u64().unwrap_or(0) as u32).collect();
    let mut ch = Ch::new(&choices);
    eval(&j, &mut ch, &mut acc);
    Ok(acc)
}

pub fn check(tier: Tier) -> i32 {
    let mut rep = Report::new("C13", tier, "model_checking");
    rep.rule = "abstract values: every JSON value of <= s nodes over leaves {null, true, false, 9 boundary numbers, 6 strings} (arrays, objects with distinct keys incl. empty and quoted-quote keys), and every string of length <= 3 over 17 hostile symbols (indicators, escapes \\\" \\\\ \\/ \\n \\t \\u00e9, non-ASCII) as array item, object key and object value; arrays / objects / alternating / sibling-carrying nestings of depth 6 .. 250; 30 more boundary numbers (subnormals, extremes, integers around 2^63 and 2^64, exponent spellings) at 3 positions; every \\uXXXX escape of the BMP outside the surrogate range in both hex cases plus \\b \\f \\r; serialisation: a choice among {nothing, space, LF, tab, CRLF, LF+indent, tab+space, space+tab} at EVERY token boundary (all vectors with <= d deviations) plus three pretty-printers (indent 2, indent 4, tab); oracle: Yaml::load_from_str gives exactly one document equal to the JSON value (objects -> ordered mappings with string keys, integers that fit i64 -> Integer, other numbers -> Float of the same value, escapes decoded). Non-trivial: every serialisation; distinct: distinct texts.".into();
    rep.assumptions = vec!["number values: std's str::parse::<f64> of the JSON number text".into(), "objects have no duplicate keys; nesting stays far below the flow-depth limit; no surrogate \\u escapes".into()];
    let budget = Budget::new(wall_cap(tier));
    rep.mandatory_scopes = 2;
    let (s_full, s_small, d) = match tier {
        Tier::Quick => (2usize, 4usize, 2usize),
        Tier::Thorough => (3, 5, 2),
    };
    let mut vals: Vec<J> = (1..=s_full).flat_map(|n| values(n, &leaves())).collect();
    vals.extend((s_full + 1..=s_small).flat_map(|n| values(n, &small_leaves())));
    let (acc, done) = par_blocks(vals.len() as u64, &budget, |b, acc| {
        let (c, t) = explore(d, &mut |ch: &mut Ch| eval(&vals[b as usize], ch, acc));
        acc.count("choice_vectors", c);
        acc.count("choice_edges", t);
    });
    let n = acc.evals;
    let mut states = acc.counters.get("choice_vectors").copied().unwrap_or(0);
    let mut trans = acc.counters.get("choice_edges").copied().unwrap_or(0);
    rep.acc.merge(acc);
    rep.scope(&format!("values <= {s_full} nodes (all leaves) and <= {s_small} nodes (6 leaves): {} values x <= {d} deviations", vals.len()), n, done == vals.len() as u64);
    // hostile strings
    let mut strs: Vec<(String, String)> = vec![(String::new(), String::new())];
    let mut frontier = strs.clone();
    for _ in 0..3 {
        let mut next = vec![];
        for (s, d) in &frontier {
            for (a, b) in SYMS {
                next.push((format!("{s}{a}"), format!("{d}{b}")));
            }
        }
        strs.extend(next.iter().cloned());
        frontier = next;
    }
    // long strings: JSON has no limit on key length or on the blanks around ':'
    for n in [1023usize, 1024, 1025, 1100, 5000] {
        let k = "k".repeat(n);
        strs.push((k.clone(), k));
    }
    strs.push((format!("a{}", " ".repeat(1100)), format!("a{}", " ".repeat(1100))));
    // document-marker and directive look-alikes inside strings
    for w in ["--- ", "... ", "---", "...", "a --- b", "--- x", "... x", "%YAML 1.2", "- a", "? a", ": a", "# a", "a: b # c", "&a *a !t"] {
        strs.push((w.to_string(), w.to_string()));
    }
    let ds = if tier == Tier::Quick { 1 } else { 2 };
    let (acc, done) = par_blocks(strs.len() as u64, &budget, |b, acc| {
        let (sp, dec) = &strs[b as usize];
        let s = J::Str(sp.clone(), dec.clone());
        for j in [J::Arr(vec![s.clone(), J::Num("0")]), J::Obj(vec![((sp.clone(), dec.clone()), J::Num("0"))]), J::Obj(vec![(("k".into(), "k".into()), s.clone())]), s.clone()] {
            let (c, t) = explore(ds, &mut |ch: &mut Ch| eval(&j, ch, acc));
            acc.count("choice_vectors", c);
            acc.count("choice_edges", t);
        }
    });
    let n = acc.evals;
    states += acc.counters.get("choice_vectors").copied().unwrap_or(0);
    trans += acc.counters.get("choice_edges").copied().unwrap_or(0);
    rep.acc.merge(acc);
    rep.scope(&format!("hostile strings <= 3 symbols ({}) x 4 positions x <= {ds} deviations", strs.len()), n, done == strs.len() as u64);
    // deep values (JSON has no depth limit of its own; the statement stops at the parser's flow-depth limit)
    let depths: Vec<usize> = (6..=20).chain([31, 32, 33, 63, 64, 65, 100, 127, 128, 129, 200, 250]).collect();
    let jobs: Vec<(usize, usize)> = (0..4).flat_map(|k| depths.iter().map(move |&d| (k, d))).collect();
    let (acc, done) = par_blocks(jobs.len() as u64, &budget, |b, acc| {
        let (k, d) = jobs[b as usize];
        let j = spine(k, d);
        let mut a = Acc::default();
        let (c, t) = explore(1, &mut |ch: &mut Ch| eval(&j, ch, &mut a));
        for (_, (_, v)) in a.viols.iter_mut() {
            v.case["value"] = json!({"spine": [k, d]});
        }
        a.samples.clear();
        a.count("choice_vectors", c);
        a.count("choice_edges", t);
        acc.merge(a);
    });
    let n = acc.evals;
    states += acc.counters.get("choice_vectors").copied().unwrap_or(0);
    trans += acc.counters.get("choice_edges").copied().unwrap_or(0);
    rep.acc.merge(acc);
    rep.scope(&format!("deep values: 4 kinds x depths 6..20, 31..33, 63..65, 100, 127..129, 200, 250 ({}) x <= 1 deviation", jobs.len()), n, done == jobs.len() as u64);
    // number table
    let (acc, done) = par_blocks(NUMS2.len() as u64, &budget, |b, acc| {
        let n = J::Num(NUMS2[b as usize]);
        for j in [n.clone(), J::Arr(vec![n.clone(), n.clone()]), J::Obj(vec![(("k".into(), "k".into()), n.clone())])] {
            let (c, t) = explore(2, &mut |ch: &mut Ch| eval(&j, ch, acc));
            acc.count("choice_vectors", c);
            acc.count("choice_edges", t);
        }
    });
    let n = acc.evals;
    states += acc.counters.get("choice_vectors").copied().unwrap_or(0);
    trans += acc.counters.get("choice_edges").copied().unwrap_or(0);
    rep.acc.merge(acc);
    rep.scope(&format!("number table ({}) x 3 positions x <= 2 deviations", NUMS2.len()), n, done == NUMS2.len() as u64);
    // every \uXXXX escape of the BMP outside the surrogate range (lower- and upper-case hex), and the
    // short escapes \b \f \r, as array item, object key and object value
    let mut esc: Vec<(String, String)> = vec![("\\b".into(), "\u{8}".into()), ("\\f".into(), "\u{c}".into()), ("\\r".into(), "\r".into()), ("a\\rb".into(), "a\rb".into())];
    for cp in 0u32..=0xffff {
        if let Some(c) = char::from_u32(cp) {
            esc.push((format!("\\u{cp:04x}"), c.to_string()));
            if format!("{cp:04x}") != format!("{cp:04X}") {
                esc.push((format!("\\u{cp:04X}"), c.to_string()));
            }
        }
    }
    let nb = (esc.len() + 255) / 256;
    let (acc, done) = par_blocks(nb as u64, &budget, |b, acc| {
        for (sp, dec) in esc.iter().skip(b as usize * 256).take(256) {
            let st = J::Str(format!("x{sp}y"), format!("x{dec}y"));
            for j in [J::Arr(vec![st.clone()]), J::Obj(vec![((sp.clone(), dec.clone()), st.clone())])] {
                let (c, t) = explore(0, &mut |ch: &mut Ch| eval(&j, ch, acc));
                acc.count("choice_vectors", c);
                acc.count("choice_edges", t);
            }
        }
    });
    let n = acc.evals;
    states += acc.counters.get("choice_vectors").copied().unwrap_or(0);
    trans += acc.counters.get("choice_edges").copied().unwrap_or(0);
    rep.acc.merge(acc);
    rep.scope(&format!("escape table ({} spellings: every BMP \\uXXXX outside D800-DFFF in both hex cases, \\b \\f \\r) as array item, key and value", esc.len()), n, done == nb as u64);
    rep.mc = Some((states.max(1), trans.max(1), rep.acc.evals));
    rep.extra.insert("explanation".into(), json!("states = choice vectors (serialisations); transitions = edges of the choice tree; traces_validated = loads of the serialised text by the real loader compared with the JSON value"));
    rep.finish()
}
