//! C14 — line-break style does not change the parse.
use super::sweep::*;
use crate::engine::Budget;
use crate::report::{Acc, Report, Tier};
use serde_json::Value;

pub fn check(tier: Tier) -> i32 {
    let mut rep = Report::new("C14", tier, "exploration");
    rep.rule = "every CR-free string of the listed scopes that contains at least one LF is parsed as is and with LF->CRLF and LF->CR (StrInput and BufferedInput); events (values included), line/col of every span, success, error message and error line/col must be identical. Non-trivial: contains an LF (others are skipped and not counted); distinct: distinct (event kinds, line vector, error message).".into();
    rep.assumptions = vec!["character indices are not compared (the statement exempts them)".into()];
    let plan = plan(tier, 6, 8, 3, 4);
    rep.mandatory_scopes = plan.spaces.len();
    let budget = Budget::new(wall_cap(tier));
    run_plan(&mut rep, &plan, &budget, |s, acc| c14_eval(s, acc));
    run_long(&mut rep, tier, &budget, |s, acc| c14_eval(s, acc));
    rep.finish()
}
pub fn replay(case: &Value) -> Result<Acc, String> {
    replay_with(case, |s, acc| c14_eval(s, acc))
}
