//! C15 — documents in a stream are parsed independently of each other (E3: stream histories).
use crate::engine::{par_blocks, sweep_strings, Budget};
use crate::props::sweep::wall_cap;
use crate::report::{h64, Acc, Report, Tier, Violation};
use crate::scopes::{load_suite, sigma};
use crate::subject::*;
use serde_json::{json, Value};
use std::collections::{BTreeMap, HashMap};

/// Events of the documents only (stream frame removed), anchors renumbered by first appearance
/// using `map`/`next` (shared across the members of a concatenation), spans dropped.
fn doc_events(o: &Obs, map: &mut HashMap<usize, usize>, next: &mut usize, fresh_per_member: bool) -> Vec<Ev> {
    if fresh_per_member {
        map.clear();
    }
    let mut out = vec![];
    let mut ren = |a: usize, map: &mut HashMap<usize, usize>, next: &mut usize, define: bool| -> usize {
        if a == 0 {
            return 0;
        }
        if define {
            *next += 1;
            map.insert(a, *next);
            *next
        } else {
            map.get(&a).copied().unwrap_or(usize::MAX)
        }
    };
    for (e, _) in &o.evs {
        out.push(match e {
            Ev::SS | Ev::SE => continue,
            Ev::DS(_) => Ev::DS(false),
            Ev::Sc(v, st, a, t) => Ev::Sc(v.clone(), *st, ren(*a, map, next, true), t.clone()),
            Ev::SeqS(a, t) => Ev::SeqS(ren(*a, map, next, true), t.clone()),
            Ev::MapS(a, t) => Ev::MapS(ren(*a, map, next, true), t.clone()),
            Ev::Al(a) => Ev::Al(ren(*a, map, next, false)),
            other => other.clone(),
        });
    }
    out
}

struct Member {
    text: String,
    obs: Obs,
    docs: Vec<Canon>,
}

fn member(text: &str) -> Option<Member> {
    let mut t = text.to_string();
    if !(t.ends_with('\n') || t.ends_with('\r')) {
        t.push('\n');
    }
    let o = observe(&t, Backend::Str, Api::Iter).ok()?;
    if o.err.is_some() {
        return None;
    }
    let docs = load_canon(&t, NodeType::Yaml).ok()?.ok()?;
    Some(Member { text: t, obs: o, docs })
}

fn hist_case(texts: &[&str]) -> Value {
    json!({"kind": "concatenation", "members": texts})
}

fn eval_concat(ms: &[&Member], acc: &mut Acc) {
    acc.evals += 1;
    let texts: Vec<&str> = ms.iter().map(|m| m.text.as_str()).collect();
    let joined = texts.join("...\n");
    let size = joined.len();
    if acc.class(h64(&texts)) && ms.len() >= 3 {
        acc.sample(json!({"members": texts}));
    }
    // expected
    let mut map = HashMap::new();
    let mut next = 0usize;
    let mut want: Vec<Ev> = vec![];
    for m in ms {
        want.extend(doc_events(&m.obs, &mut map, &mut next, true));
    }
    let want_docs: Vec<Canon> = ms.iter().flat_map(|m| m.docs.iter().cloned()).collect();
    for (api, be) in [(Api::Iter, Backend::Str), (Api::Push, Backend::Str), (Api::Iter, Backend::Buf)] {
        let o = match observe(&joined, be, api) {
            Ok(o) => o,
            Err(m) => {
                acc.violation(Violation { key: format!("concatenation-panics api={}", api.name()), expected: "the concatenation parses".into(), observed: format!("panic: {m}"), case: hist_case(&texts), size });
                continue;
            }
        };
        if let Some(e) = &o.err {
            acc.violation(Violation { key: format!("concatenation-rejected api={} err={}", api.name(), crate::props::sweep::classify_panic(&e.info)), expected: "each member parses alone, so the concatenation parses".into(), observed: e.display.clone(), case: hist_case(&texts), size });
            continue;
        }
        let mut m2 = HashMap::new();
        let mut n2 = 0usize;
        let got = doc_events(&o, &mut m2, &mut n2, false);
        if got != want {
            let i = got.iter().zip(want.iter()).position(|(a, b)| a != b).unwrap_or(got.len().min(want.len()));
            let what = match (got.get(i), want.get(i)) {
                (Some(Ev::Sc(a, s1, _, _)), Some(Ev::Sc(b, s2, _, _))) if a != b && s1 == s2 => format!("scalar-value style={s1:?}"),
                (Some(Ev::Al(_)), _) | (_, Some(Ev::Al(_))) => "alias".into(),
                (Some(a), Some(b)) if a.kind() == b.kind() => format!("same-kind {}", a.kind()),
                _ => "structure".into(),
            };
            acc.violation(Violation { key: format!("documents-differ api={} what={what}", api.name()), expected: format!("event #{i}: {:?}", want.get(i)), observed: format!("{:?}", got.get(i)), case: hist_case(&texts), size });
        }
    }
    match load_canon(&joined, NodeType::Yaml) {
        Ok(Ok(d)) => {
            if d != want_docs {
                acc.violation(Violation { key: "loaded-documents-differ".into(), expected: format!("{want_docs:?}"), observed: format!("{d:?}"), case: hist_case(&texts), size });
            }
        }
        Ok(Err(e)) => acc.violation(Violation { key: "concatenation-rejected api=load".into(), expected: "loads".into(), observed: e.display, case: hist_case(&texts), size }),
        Err(_) => {}
    }
}

fn directive_table() -> Vec<String> {
    [
        "%YAML 1.2\n--- a\n",
        "%TAG !! tag:x.org,2000:\n--- !!str a\n",
        "%TAG ! !loc-\n--- !t a\n",
        "%TAG !e! tag:e:\n--- !e!x a\n",
        "--- !!str a\n",
        "--- !t a\n",
        "!!int 1\n",
        "%YAML 1.2\n%TAG !e! tag:f:\n---\n- !e!y b\n",
        "--- &a a\n",
        "- &a x\n- *a\n",
        "&a [b, *a]\n",
        "---\n",
        "--- |\n a\n",
        "--- >-\n a\n b\n",
        "a: [b,\n  c]\n",
        "? a\n",
        "- - a\n  - b\n",
        "a:\n  - b\n",
        "\"a\n  b\"\n",
        "# just a comment\n",
        "%YAML 1.2\n---\n",
        "%YAML 1.2\n---\n...\n",
        "%TAG !e! tag:e:\n---\n",
        "%YAML 1.2\n--- # empty\n",
        "%YAML 1.2\n---\nb: 1\n",
        "...\n",
        "# c\n...\n",
        "--- a\n...\n...\n",
        "\n",
        "--- >\n",
        "--- [a,\n b]\n",
        "- |\n a\n-\n",
        "a\n\n",
        "- a\n\n",
        "b\n c\n",
        "- b\n  c\n",
        "\u{feff}a\n",
        "--- |\n  \n",
        "|\n \n \n",
        ">-\n",
        "|+\n\n",
        "--- \"a\n  b\"\n",
        // root nodes that consist of properties only; plain scalars followed by several empty / blank lines
        "&a\n",
        "--- !!null\n",
        "--- !local &x\n",
        "!t\n",
        "k: !t\n",
        "- &a\n",
        "a\n\n\n",
        "a\n \n",
        "a\n\t\n\n",
        "a b\n\n  \n",
        "'a'\n\n",
        "[a]\n\n",
        "k: v\n\n\n",
        // JSON-like forms whose ':' is adjacent to the value (the scanner remembers where that is allowed)
        "{\"a\":[b]}\n",
        "[{\"k\":{\"a\":1}}]\n",
        "{\"a\":\"b\",'c':d}\n",
        "[\"a\":b]\n",
        "{[a]:b, {c: d}:e}\n",
    ]
    .iter()
    .map(|s| s.to_string())
    .flat_map(|s| {
        // "A ends with a line break": also a CRLF or a lone CR (for the members without block scalars,
        // whose content would change with the break)
        let mut v = vec![s.clone()];
        if !s.contains('|') && !s.contains('>') && s.contains('\n') && s.len() <= 12 {
            v.push(s.replace('\n', "\r\n"));
            v.push(s.replace('\n', "\r"));
        }
        v
    })
    .collect()
}

pub fn replay(case: &Value) -> Result<Acc, String> {
    let mut acc = Acc::default();
    let ms: Vec<Member> = case["members"].as_array().ok_or("no members")?.iter().map(|m| member(m.as_str().unwrap_or("")).ok_or("a member is not an accepted stream")).collect::<Result<_, _>>()?;
    let refs: Vec<&Member> = ms.iter().collect();
    eval_concat(&refs, &mut acc);
    Ok(acc)
}

pub fn check(tier: Tier) -> i32 {
    let mut rep = Report::new("C15", tier, "model_checking");
    rep.rule = "pool P = one shortest representative per (event sentence with scalar values) class of the ACCEPTED strings up to length 5 over the block, flow, property and document alphabets (final LF appended), the non-error yaml-test-suite inputs and a directive/anchor table; histories = ALL ordered pairs over the first n2 members, all triples over n3, all quadruples over n4, joined by a '...' line. Oracle: the concatenation parses (iterator and push); its document events with spans dropped and anchors renumbered by first appearance equal the members' own document events in order; load_from_str gives the concatenation of the separately loaded documents. Non-trivial: every case (two or more documents); distinct: distinct member tuples.".into();
    rep.assumptions = vec!["members are streams that parse on their own and end with a line break (the property's precondition)".into()];
    let budget = Budget::new(wall_cap(tier));
    rep.mandatory_scopes = 1;
    // ---- pool ----
    let n = if tier == Tier::Quick { 6 } else { 7 };
    let mut classes: BTreeMap<u64, String> = BTreeMap::new();
    for a in ["blk", "flow", "prop", "doc"] {
        let sp = sigma(a, n);
        let (acc, _) = sweep_strings(&sp, &budget, |s, acc| {
            if let Ok(o) = observe(s, Backend::Str, Api::Iter) {
                if o.err.is_none() {
                    // class = event sentence with scalar styles, anchors/tags and a coarse value shape
                    let key = h64(&o.evs.iter().map(|e| match &e.0 {
                        Ev::Sc(v, st, a, t) => format!("={st:?}{}{}{}", a, t.is_some(), if v.is_empty() { 0 } else if v == "~" { 1 } else if v.contains('\n') { 2 } else { 3 }),
                        other => format!("{other:?}"),
                    }).collect::<Vec<_>>());
                    if acc.class(key) {
                        acc.counters.insert(format!("{key}\u{1}{s}"), 1);
                    }
                }
            }
        });
        for (k, _) in acc.counters {
            let (key, s) = k.split_once('\u{1}').unwrap();
            let key: u64 = key.parse().unwrap();
            match classes.get(&key) {
                Some(old) if (old.len(), old.as_str()) <= (s.len(), s) => {}
                _ => {
                    classes.insert(key, s.to_string());
                }
            }
        }
    }
    let mut texts: Vec<String> = classes.into_values().collect();
    texts.sort_by(|a, b| (a.len(), a).cmp(&(b.len(), b)));
    let mut pool: Vec<Member> = directive_table().iter().filter_map(|t| member(t)).collect();
    let table_n = pool.len();
    pool.extend(texts.iter().filter_map(|t| member(t)));
    let suite: Vec<Member> = load_suite().map(|c| c.into_iter().filter(|c| !c.fail).filter_map(|c| member(&c.yaml)).collect()).unwrap_or_default();
    eprintln!("[C15] pool: {} table + {} class representatives, suite members {}", table_n, pool.len() - table_n, suite.len());
    let (n2, n3, n4, ns) = match tier {
        Tier::Quick => (700usize, 50usize, 14usize, 100usize),
        Tier::Thorough => (3000, 150, 40, suite.len()),
    };
    let n2 = n2.min(pool.len());
    // pairs
    let (acc, done) = par_blocks(n2 as u64, &budget, |b, acc| {
        for j in 0..n2 {
            eval_concat(&[&pool[b as usize], &pool[j]], acc);
        }
    });
    let c = acc.evals;
    rep.acc.merge(acc);
    rep.scope(&format!("pairs over {n2} members"), c, done == n2 as u64);
    // suite x table pairs (both orders) and suite x suite
    let ns = ns.min(suite.len());
    let (acc, done) = par_blocks(ns as u64, &budget, |b, acc| {
        for j in 0..ns {
            eval_concat(&[&suite[b as usize], &suite[j]], acc);
        }
        for t in pool.iter().take(table_n) {
            eval_concat(&[&suite[b as usize], t], acc);
            eval_concat(&[t, &suite[b as usize]], acc);
        }
    });
    let c = acc.evals;
    rep.acc.merge(acc);
    rep.scope(&format!("suite pairs over {ns} cases + table"), c, done == ns as u64);
    // triples
    let n3 = n3.min(pool.len());
    let (acc, done) = par_blocks((n3 * n3) as u64, &budget, |b, acc| {
        let (i, j) = (b as usize / n3, b as usize % n3);
        for k in 0..n3 {
            eval_concat(&[&pool[i], &pool[j], &pool[k]], acc);
        }
    });
    let c = acc.evals;
    rep.acc.merge(acc);
    rep.scope(&format!("triples over {n3} members"), c, done == (n3 * n3) as u64);
    // quadruples
    let n4 = n4.min(pool.len());
    let (acc, done) = par_blocks((n4 * n4) as u64, &budget, |b, acc| {
        let (i, j) = (b as usize / n4, b as usize % n4);
        for k in 0..n4 {
            for l in 0..n4 {
                eval_concat(&[&pool[i], &pool[j], &pool[k], &pool[l]], acc);
            }
        }
    });
    let c = acc.evals;
    rep.acc.merge(acc);
    rep.scope(&format!("quadruples over {n4} members"), c, done == (n4 * n4) as u64);
    let total = rep.acc.evals;
    rep.mc = Some((total.max(1), total.max(1), total * 3));
    rep.extra.insert("explanation".into(), json!("states = stream histories (member tuples) explored; traces_validated = parses/loads of the concatenation on the real code compared with the members' own observations"));
    rep.finish()
}
