//! C16 — tags resolve through the directives in force for their document.
use crate::engine::{par_blocks, Budget};
use crate::props::sweep::wall_cap;
use crate::report::{h64, Acc, Report, Tier, Violation};
use crate::subject::*;
use saphyr_parser::Parser;
use serde_json::{json, Value};
use std::collections::BTreeMap;

const HANDLES: [&str; 4] = ["!", "!!", "!e!", "!f!"];
const PREFIXES: [&str; 3] = ["!loc-", "tag:x.org,2000:", "tag:y/"];
/// (spelling, handle, decoded suffix, verbatim)
const SPELLINGS: [(&str, &str, &str, bool); 17] = [
    ("", "", "", false),
    ("!", "", "", false), // the non-specific tag
    ("!a", "!", "a", false),
    ("!!str", "!!", "str", false),
    ("!e!x", "!e!", "x", false),
    ("!f!y", "!f!", "y", false),
    ("!e!a%21b", "!e!", "a!b", false),
    ("!e!%C3%A9", "!e!", "é", false),
    ("!!%E4%B8%ADx", "!!", "中x", false),
    // word characters followed by other tag characters / an escape, under the secondary and a named handle
    ("!!a.b%2Fc", "!!", "a.b/c", false),
    ("!!st%72", "!!", "str", false),
    ("!e!p/q.r-s", "!e!", "p/q.r-s", false),
    // a suffix that decodes to exactly "!" is not the non-specific tag
    ("!e!%21", "!e!", "!", false),
    ("!%21", "!", "!", false),
    ("!<tag:v>", "", "tag:v", true),
    ("!<!v>", "", "!v", true),
    ("!<tag:%C3%A9>", "", "tag:é", true),
];

#[derive(Clone, Debug, PartialEq)]
pub struct Doc {
    /// (handle index, prefix index)
    pub directives: Vec<(usize, usize)>,
    /// position of a %YAML directive among the directive lines (None = absent)
    pub yaml_at: Option<usize>,
    pub spelling: usize,
    /// 0 scalar, 1 block sequence, 2 flow mapping
    pub node: u8,
    /// written without a `---` line (only where that is legal: no directives, tagged or untagged node)
    pub bare: bool,
}

fn render_doc(d: &Doc) -> String {
    let mut s = String::new();
    let mut lines: Vec<String> = d.directives.iter().map(|(h, p)| format!("%TAG {} {}\n", HANDLES[*h], PREFIXES[*p])).collect();
    if let Some(i) = d.yaml_at {
        lines.insert(i.min(lines.len()), "%YAML 1.2\n".into());
    }
    for l in lines {
        s.push_str(&l);
    }
    let sp = SPELLINGS[d.spelling].0;
    if d.bare && d.directives.is_empty() && d.yaml_at.is_none() {
        // a bare document: the node starts the line
        match d.node {
            0 => s.push_str(&format!("{sp}{}a\n", if sp.is_empty() { "" } else { " " })),
            1 => s.push_str(&format!("{sp}{}- a\n", if sp.is_empty() { "" } else { "\n" })),
            _ => s.push_str(&format!("{sp}{}{{a: b}}\n", if sp.is_empty() { "" } else { " " })),
        }
        return s;
    }
    s.push_str("---");
    if !sp.is_empty() {
        s.push(' ');
        s.push_str(sp);
    }
    match d.node {
        0 => s.push_str(" a\n"),
        1 => s.push_str("\n- a\n"),
        _ => s.push_str(" {a: b}\n"),
    }
    s
}

/// What the model expects for one document: Err(reason) or Ok(reported tag as handle+suffix).
fn model_doc(d: &Doc, table: &mut BTreeMap<String, String>, keep: bool) -> Result<Option<String>, &'static str> {
    if !keep {
        table.clear();
    }
    let mut seen = vec![];
    for (h, p) in &d.directives {
        if seen.contains(h) {
            return Err("handle declared twice in one document");
        }
        seen.push(*h);
        table.insert(HANDLES[*h].to_string(), PREFIXES[*p].to_string());
    }
    let (sp, handle, suffix, verbatim) = SPELLINGS[d.spelling];
    if sp.is_empty() {
        return Ok(None);
    }
    if sp == "!" {
        return Ok(Some("!".into()));
    }
    if verbatim {
        return Ok(Some(suffix.to_string()));
    }
    let prefix = match table.get(handle) {
        Some(p) => p.clone(),
        None => match handle {
            "!" => "!".to_string(),
            "!!" => "tag:yaml.org,2002:".to_string(),
            _ => return Err("named handle was never declared"),
        },
    };
    Ok(Some(format!("{prefix}{suffix}")))
}

fn case_json(docs: &[Doc], seps: &[bool], keep: bool, text: &str) -> Value {
    json!({"kind": "tags", "keep_tags": keep, "text": text, "separators_docend": seps,
        "docs": docs.iter().map(|d| json!({"directives": d.directives.iter().map(|(h, p)| json!([h, p])).collect::<Vec<_>>(), "yaml_at": d.yaml_at, "spelling": d.spelling, "node": d.node, "bare": d.bare})).collect::<Vec<_>>()})
}

pub fn eval(docs: &[Doc], seps: &[bool], keep: bool, acc: &mut Acc) {
    // render
    let mut text = String::new();
    for (i, d) in docs.iter().enumerate() {
        if i > 0 {
            let needs = !d.directives.is_empty() || d.yaml_at.is_some() || d.bare;
            if needs || seps[i - 1] {
                text.push_str("...\n");
            }
        }
        text.push_str(&render_doc(d));
    }
    acc.evals += 1;
    // model
    let mut table = BTreeMap::new();
    let mut want: Result<Vec<Option<String>>, &'static str> = Ok(vec![]);
    for d in docs {
        match model_doc(d, &mut table, keep) {
            Ok(t) => {
                if let Ok(v) = &mut want {
                    v.push(t)
                }
            }
            Err(e) => {
                want = Err(e);
                break;
            }
        }
    }
    // subject
    let got: Result<Vec<Option<String>>, String> = match std::panic::catch_unwind(|| drive_iter(Parser::new_from_str(&text).keep_tags(keep))) {
        Err(_) => Err("panic".into()),
        Ok(o) => match &o.err {
            Some(e) => Err(e.info.clone()),
            None => {
                // the tag of the root node of each document
                let mut v = vec![];
                let mut it = o.evs.iter().map(|e| &e.0).peekable();
                while let Some(e) = it.next() {
                    if matches!(e, Ev::DS(_)) {
                        if let Some(root) = it.peek() {
                            let t = match root {
                                Ev::Sc(_, _, _, t) | Ev::SeqS(_, t) | Ev::MapS(_, t) => t.as_ref().map(|t| format!("{}{}", t.0, t.1)),
                                _ => None,
                            };
                            v.push(t);
                        }
                    }
                }
                Ok(v)
            }
        },
    };
    let ok = match (&want, &got) {
        (Ok(w), Ok(g)) => w == g,
        (Err(_), Err(e)) => e != "panic",
        _ => false,
    };
    if !ok {
        let multi = docs.iter().map(|d| d.directives.len()).max().unwrap_or(0);
        let sp: Vec<&str> = docs.iter().map(|d| SPELLINGS[d.spelling].0).collect();
        let what = match (&want, &got) {
            (Ok(_), Err(e)) => format!("rejected:{}", crate::props::sweep::classify_panic(e)),
            (Err(e), Ok(_)) => format!("accepted-but:{e}"),
            (Ok(w), Ok(g)) => {
                let i = w.iter().zip(g.iter()).position(|(a, b)| a != b).unwrap_or(0);
                format!("tag-differs doc={i} spelling={}", sp.get(i).copied().unwrap_or(""))
            }
            _ => "other".into(),
        };
        acc.violation(Violation { key: format!("tags what={what} max_directives_per_doc={multi} keep={keep} docs={}", docs.len()), expected: format!("{want:?}"), observed: format!("{got:?}"), case: case_json(docs, seps, keep, &text), size: text.len() });
    }
    let cls = h64(&(docs.iter().map(|d| (d.directives.clone(), d.spelling, d.node)).collect::<Vec<_>>(), keep, seps));
    if acc.class(cls) && docs.len() >= 2 && docs[1].directives.len() >= 1 && docs[0].spelling > 3 {
        acc.sample(json!({"text": text, "keep_tags": keep, "model": format!("{want:?}")}));
    }
}

fn directive_sets(max: usize) -> Vec<Vec<(usize, usize)>> {
    let mut out = vec![vec![]];
    let mut frontier: Vec<Vec<(usize, usize)>> = vec![vec![]];
    for _ in 0..max {
        let mut next = vec![];
        for f in &frontier {
            for h in 0..HANDLES.len() {
                for p in 0..PREFIXES.len() {
                    let mut v = f.clone();
                    v.push((h, p));
                    next.push(v);
                }
            }
        }
        out.extend(next.iter().cloned());
        frontier = next;
    }
    out
}
fn docs_over(sets: &[Vec<(usize, usize)>], yaml: bool, nodes: &[u8]) -> Vec<Doc> {
    let mut v = vec![];
    for s in sets {
        let mut yamls = vec![None];
        if yaml {
            for i in 0..=s.len() {
                yamls.push(Some(i));
            }
        }
        for y in yamls {
            for sp in 0..SPELLINGS.len() {
                for &n in nodes {
                    v.push(Doc { directives: s.clone(), yaml_at: y, spelling: sp, node: n, bare: false });
                    if s.is_empty() && y.is_none() {
                        v.push(Doc { directives: vec![], yaml_at: None, spelling: sp, node: n, bare: true });
                    }
                }
            }
        }
    }
    v
}

pub fn replay(case: &Value) -> Result<Acc, String> {
    let mut acc = Acc::default();
    if case["kind"] == "tagchar" {
        // re-run the one text: the tag must contain the character
        let text = case["text"].as_str().ok_or("no text")?;
        let c = case["char"].as_str().and_then(|x| x.chars().next()).ok_or("no char")?;
        acc.evals += 1;
        let got = observe(text, Backend::Str, Api::Iter).ok().and_then(|o| if o.err.is_some() { None } else { o.evs.iter().find_map(|e| if let Ev::Sc(_, _, _, Some(t)) = &e.0 { Some(format!("{}{}", t.0, t.1)) } else { None }) });
        if !got.as_ref().map_or(false, |g| g.contains(c)) {
            acc.violation(Violation { key: "tags literal-char".into(), expected: format!("a tag containing {c:?}"), observed: format!("{got:?}"), case: case.clone(), size: text.len() });
        }
        return Ok(acc);
    }
    if case["kind"] == "escape" {
        // re-run the one text; the expectation is recomputed from the code point
        let text = case["text"].as_str().ok_or("no text")?;
        let c = char::from_u32(case["codepoint"].as_u64().unwrap_or(0) as u32).ok_or("bad code point")?;
        acc.evals += 1;
        let got = observe(text, Backend::Str, Api::Iter).ok().and_then(|o| if o.err.is_some() { None } else { o.evs.iter().find_map(|e| if let Ev::Sc(_, _, _, Some(t)) = &e.0 { Some(format!("{}{}", t.0, t.1)) } else { None }) });
        if !got.as_ref().map_or(false, |g| g.contains(c)) {
            acc.violation(Violation { key: "tags percent-escape".into(), expected: format!("a tag containing {c:?}"), observed: format!("{got:?}"), case: case.clone(), size: text.len() });
        }
        return Ok(acc);
    }
    let docs: Vec<Doc> = case["docs"].as_array().ok_or("no docs")?.iter().map(|d| Doc { directives: d["directives"].as_array().map(|a| a.iter().map(|x| (x[0].as_u64().unwrap_or(0) as usize, x[1].as_u64().unwrap_or(0) as usize)).collect()).unwrap_or_default(), yaml_at: d["yaml_at"].as_u64().map(|x| x as usize), spelling: d["spelling"].as_u64().unwrap_or(0) as usize, node: d["node"].as_u64().unwrap_or(0) as u8, bare: d["bare"].as_bool().unwrap_or(false) }).collect();
    let seps: Vec<bool> = case["separators_docend"].as_array().map(|a| a.iter().map(|x| x.as_bool().unwrap_or(false)).collect()).unwrap_or_default();
    eval(&docs, &seps, case["keep_tags"].as_bool().unwrap_or(false), &mut acc);
    Ok(acc)
}

pub fn check(tier: Tier) -> i32 {
    let mut rep = Report::new("C16", tier, "model_checking");
    rep.rule = "abstract values: documents = (sequence of 0-3 %TAG directives over handles {!, !!, !e!, !f!} x prefixes {!loc-, tag:x.org,2000:, tag:y/}, optional %YAML 1.2 at any position among them, one of 17 tag spellings (none, '!', local, secondary, named handles, percent-encoded suffixes incl. multi-byte UTF-8, verbatim tags; plus every character a tag may contain literally, in suffixes, prefixes and verbatim tags) on a scalar / block sequence / flow mapping); streams of 1, 2 and (thorough) 3 documents separated by '...' or a bare '---', with keep_tags off and on. Oracle: a per-document handle table (defaults, or the previous table when keep_tags is set; all directives of a document in force together; a handle repeated within a document and an undeclared named handle are errors); the tag reported for each root node, as the string handle+suffix, equals prefix + percent-decoded suffix. Non-trivial: every stream; distinct: distinct (directive sets, spellings, node kinds, separators, keep_tags).".into();
    rep.assumptions = vec!["prefixes contain no '%' (the statement speaks of decoding the suffix only)".into(), "with keep_tags, a later document may re-declare a handle kept from an earlier document".into()];
    let budget = Budget::new(wall_cap(tier));
    rep.mandatory_scopes = 2;
    let mut states = 0u64;
    // one-document streams: all directive sets up to 3
    let one = docs_over(&directive_sets(3), true, &[0, 1, 2]);
    let (acc, done) = par_blocks(((one.len() + 255) / 256) as u64, &budget, |b, acc| {
        for d in one.iter().skip(b as usize * 256).take(256) {
            for keep in [false, true] {
                eval(std::slice::from_ref(d), &[], keep, acc);
            }
        }
    });
    let n = acc.evals;
    states += n;
    rep.acc.merge(acc);
    rep.scope(&format!("1-document streams ({} documents x keep)", one.len()), n, done == ((one.len() + 255) / 256) as u64);
    // two-document streams
    let first = docs_over(&directive_sets(1), false, &[0]);
    let second = docs_over(&directive_sets(2), false, &[0, 2]);
    let (acc, done) = par_blocks(first.len() as u64, &budget, |b, acc| {
        for s in &second {
            for sep in [false, true] {
                for keep in [false, true] {
                    eval(&[first[b as usize].clone(), s.clone()], &[sep], keep, acc);
                }
            }
        }
    });
    let n = acc.evals;
    states += n;
    rep.acc.merge(acc);
    rep.scope(&format!("2-document streams ({} x {} x separators x keep)", first.len(), second.len()), n, done == first.len() as u64);
    if tier == Tier::Thorough {
        let small = docs_over(&directive_sets(1), false, &[0]);
        let idx: Vec<(usize, usize)> = (0..small.len()).flat_map(|a| (0..small.len()).map(move |b| (a, b))).collect();
        let (acc, done) = par_blocks(idx.len() as u64, &budget, |b, acc| {
            let (i, j) = idx[b as usize];
            for k in small.iter().step_by(3) {
                for keep in [false, true] {
                    eval(&[small[i].clone(), small[j].clone(), k.clone()], &[false, true], keep, acc);
                }
            }
        });
        let n = acc.evals;
        states += n;
        rep.acc.merge(acc);
        rep.scope("3-document streams", n, done == idx.len() as u64);
    }
    // percent-escaped UTF-8 in suffixes, verbatim tags: every lead byte class, lowest and highest
    // code point of each, and a sweep over code points
    let mut cps: Vec<u32> = vec![0x21, 0x7e, 0x80, 0xbf, 0xc0, 0xff, 0x100, 0x3ff, 0x400, 0x416, 0x7ff, 0x800, 0xfff, 0x1000, 0x4e2d, 0x7fff, 0x8000, 0x9ec4, 0xd7ff, 0xe000, 0xfffd, 0x10000, 0x1f600, 0x3ffff, 0x40000, 0xfffff, 0x100000, 0x10fffd, 0x10ffff];
    for lead in 0xc2u32..=0xdf {
        cps.push((lead & 0x1f) << 6);
        cps.push(((lead & 0x1f) << 6) | 0x3f);
    }
    for lead in 0xe0u32..=0xef {
        cps.push(((lead & 0x0f) << 12) | 0x800);
        cps.push(((lead & 0x0f) << 12) | 0xfff);
    }
    for lead in 0xf0u32..=0xf4 {
        cps.push(((lead & 0x07) << 18) | 0x10000);
        cps.push((((lead & 0x07) << 18) | 0x3ffff).min(0x10ffff));
    }
    let cps: Vec<char> = cps.into_iter().filter_map(char::from_u32).filter(|c| !c.is_control() && *c != ' ').collect();
    let (acc, done) = par_blocks(cps.len() as u64, &budget, |b, acc| {
        let c = cps[b as usize];
        let mut enc = String::new();
        let mut buf = [0u8; 4];
        for byte in c.encode_utf8(&mut buf).bytes() {
            enc.push_str(&format!("%{byte:02X}"));
        }
        for (text, want) in [(format!("--- !<tag:{enc}x> a\n"), format!("tag:{c}x")), (format!("%TAG !e! tag:e:\n--- !e!{enc} a\n"), format!("tag:e:{c}")), (format!("--- !a{}z a\n", enc.to_lowercase()), format!("!a{c}z")), (format!("--- !!x{enc}y a\n"), format!("tag:yaml.org,2002:x{c}y"))] {
            acc.evals += 1;
            let got = match observe(&text, Backend::Str, Api::Iter) {
                Err(m) => Err(format!("panic: {m}")),
                Ok(o) => match &o.err {
                    Some(e) => Err(e.info.clone()),
                    None => Ok(o.evs.iter().find_map(|e| if let Ev::Sc(_, _, _, Some(t)) = &e.0 { Some(format!("{}{}", t.0, t.1)) } else { None })),
                },
            };
            if got != Ok(Some(want.clone())) {
                let class = match c.len_utf8() { 1 => "1-byte", 2 => "2-byte", 3 => "3-byte", _ => "4-byte" };
                acc.violation(Violation { key: format!("tags percent-escape class={class} what={}", if got.is_err() { "rejected" } else { "wrong-char" }), expected: want, observed: format!("{got:?}"), case: json!({"kind": "escape", "text": text, "codepoint": c as u32}), size: text.len() });
            }
            acc.class(h64(&text));
        }
    });
    let n = acc.evals;
    states += n;
    rep.acc.merge(acc);
    rep.scope(&format!("percent-escaped code points ({})", cps.len()), n, done == cps.len() as u64);
    // every character a tag may contain, literally (YAML 1.2 ns-uri-char / ns-tag-char): in the suffix
    // after the primary, the secondary and a named handle, in a %TAG prefix and in a verbatim tag
    let word: String = ('a'..='z').chain('A'..='Z').chain('0'..='9').chain(['-']).collect();
    let uri_only = "!,[]"; // legal in verbatim tags and prefixes, not in shorthand suffixes
    let tag_chars: String = format!("{word}#;/?:@&=+$_.~*'()");
    let all: Vec<(char, bool)> = tag_chars.chars().map(|c| (c, true)).chain(uri_only.chars().map(|c| (c, false))).collect();
    let (acc, done) = par_blocks(all.len() as u64, &budget, |b, acc| {
        let (c, in_suffix) = all[b as usize];
        let mut cases: Vec<(String, String)> = vec![(format!("--- !<tag:a{c}b> x\n"), format!("tag:a{c}b")), (format!("%TAG !e! tag:p{c}q:\n--- !e!z x\n"), format!("tag:p{c}q:z")), (format!("%TAG !e! !p{c}q\n--- !e!z x\n"), format!("!p{c}qz"))];
        if in_suffix {
            cases.push((format!("--- !a{c}b x\n"), format!("!a{c}b")));
            cases.push((format!("--- !!a{c}b x\n"), format!("tag:yaml.org,2002:a{c}b")));
            cases.push((format!("%TAG !e! tag:e:\n--- !e!a{c}b x\n"), format!("tag:e:a{c}b")));
            cases.push((format!("- !a{c} x\n"), format!("!a{c}")));
        }
        for (text, want) in cases {
            acc.evals += 1;
            let got = match observe(&text, Backend::Str, Api::Iter) {
                Err(m) => Err(format!("panic: {m}")),
                Ok(o) => match &o.err {
                    Some(e) => Err(e.info.clone()),
                    None => Ok(o.evs.iter().find_map(|e| if let Ev::Sc(_, _, _, Some(t)) = &e.0 { Some(format!("{}{}", t.0, t.1)) } else { None })),
                },
            };
            if got != Ok(Some(want.clone())) {
                let class = if c.is_ascii_alphanumeric() { "alnum" } else { "punct" };
                acc.violation(Violation { key: format!("tags literal-char class={class} what={}", if got.is_err() { "rejected" } else { "wrong-tag" }), expected: want, observed: format!("{got:?}"), case: json!({"kind": "tagchar", "text": text, "char": c.to_string()}), size: text.len() });
            }
            acc.class(h64(&text));
        }
    });
    let n = acc.evals;
    states += n;
    rep.acc.merge(acc);
    rep.scope(&format!("literal tag characters ({}): suffix after 3 handle kinds, %TAG prefixes, verbatim tags", all.len()), n, done == all.len() as u64);
    rep.mc = Some((states.max(1), states.max(1), states));
    rep.extra.insert("explanation".into(), json!("states = abstract streams enumerated; traces_validated = parses on the real parser compared with the handle-table model"));
    rep.finish()
}
