//! C17 — pull, peek and push interfaces tell the same story (engine E3: operation histories).
use crate::engine::{par_blocks, sweep_strings, Budget};
use crate::props::sweep::{case_text, str_case, wall_cap};
use crate::report::{h64, Acc, Report, Tier, Violation};
use crate::scopes::{load_suite, sigma};
use crate::subject::*;
use saphyr_parser::Parser;
use serde_json::{json, Value};
use stateright::{Checker, Model, Property};
use std::collections::BTreeMap;
use std::panic::{catch_unwind, AssertUnwindSafe};
use std::sync::Arc;

#[derive(Clone, Copy, Debug, Hash, PartialEq, Eq)]
pub enum Op {
    Next,
    Peek,
}

type Step = Option<Result<(Ev, Sp), Er>>;

/// Reference: the result of plain iteration on a fresh parser, up to and including the first error.
fn reference(input: &str) -> Vec<Result<(Ev, Sp), Er>> {
    let mut v = vec![];
    let mut p = Parser::new_from_str(input);
    loop {
        match p.next_event() {
            None => break,
            Some(Ok((e, s))) => v.push(Ok((Ev::of(&e), Sp::of(&s)))),
            Some(Err(e)) => {
                v.push(Err(Er::of(&e)));
                break;
            }
        }
        if v.len() > 100_000 {
            break;
        }
    }
    v
}

/// Replays `hist` on a fresh parser against the cursor model `(E, i)`. Returns the first
/// disagreement as (step index, expected, observed).
fn conforms(input: &str, e: &[Result<(Ev, Sp), Er>], hist: &[Op]) -> Result<(), (usize, String, String)> {
    let mut p = Parser::new_from_str(input);
    let mut i = 0usize;
    for (k, op) in hist.iter().enumerate() {
        let want: Step = e.get(i).cloned();
        match op {
            Op::Peek => {
                let got: Step = p.peek().map(|r| r.map(|x| (Ev::of(&x.0), Sp::of(&x.1))).map_err(|e| Er::of(&e)));
                if got != want {
                    return Err((k, format!("peek = {want:?}"), format!("{got:?}")));
                }
                if matches!(got, Some(Err(_))) {
                    return Ok(());
                }
            }
            Op::Next => {
                let got: Step = p.next_event().map(|r| r.map(|x| (Ev::of(&x.0), Sp::of(&x.1))).map_err(|e| Er::of(&e)));
                if got != want {
                    return Err((k, format!("next = {want:?}"), format!("{got:?}")));
                }
                if matches!(got, Some(Err(_))) {
                    return Ok(());
                }
                if got.is_some() {
                    i += 1;
                }
            }
        }
    }
    Ok(())
}

#[derive(Clone, Debug, Hash, PartialEq, Eq)]
pub struct St {
    case: u32,
    hist: Vec<Op>,
}

struct Case {
    input: String,
    reference: Vec<Result<(Ev, Sp), Er>>,
    max_next: usize,
    max_peek: usize,
    max_depth: usize,
}

struct M {
    cases: Arc<Vec<Case>>,
}

impl Model for M {
    type State = St;
    type Action = Op;
    fn init_states(&self) -> Vec<St> {
        (0..self.cases.len() as u32).map(|c| St { case: c, hist: vec![] }).collect()
    }
    fn actions(&self, s: &St, a: &mut Vec<Op>) {
        let c = &self.cases[s.case as usize];
        if s.hist.len() >= c.max_depth {
            return;
        }
        let nexts = s.hist.iter().filter(|o| **o == Op::Next).count();
        let peeks = s.hist.len() - nexts;
        // a consumer stops at the first error, whoever observed it
        let errs_at = c.reference.iter().position(|r| r.is_err());
        if let Some(ei) = errs_at {
            // `nexts` events consumed; the error is at index ei: it has been observed if nexts > ei,
            // or if a peek happened while the cursor was at ei
            if nexts > ei {
                return;
            }
            if nexts == ei && s.hist.iter().rev().take_while(|o| **o == Op::Peek).count() > 0 {
                return;
            }
        }
        if nexts < c.max_next {
            a.push(Op::Next);
        }
        if peeks < c.max_peek {
            a.push(Op::Peek);
        }
    }
    fn next_state(&self, s: &St, a: Op) -> Option<St> {
        let mut h = s.hist.clone();
        h.push(a);
        Some(St { case: s.case, hist: h })
    }
    fn properties(&self) -> Vec<Property<Self>> {
        vec![Property::always("history conforms to the cursor model", |m: &M, s: &St| {
            let c = &m.cases[s.case as usize];
            matches!(catch_unwind(AssertUnwindSafe(|| conforms(&c.input, &c.reference, &s.hist))), Ok(Ok(())))
        })]
    }
}

fn hist_case(input: &str, hist: &[Op]) -> Value {
    let mut c = str_case(input);
    c["history"] = json!(hist.iter().map(|o| if *o == Op::Next { "next" } else { "peek" }).collect::<Vec<_>>());
    c
}

// ---- push comparison ----

pub fn eval_push(s: &str, acc: &mut Acc) {
    acc.evals += 1;
    let e = reference(s);
    let ok_prefix: Vec<(Ev, Sp)> = e.iter().filter_map(|r| r.as_ref().ok().cloned()).collect();
    let err: Option<Er> = e.iter().find_map(|r| r.as_ref().err().cloned());
    for b in [Backend::Str, Backend::Buf] {
        // load(multi = true)
        match observe(s, b, Api::Push) {
            Err(_) => {}
            Ok(o) => {
                if o.evs != ok_prefix || o.err != err {
                    let what = if o.err.is_some() != err.is_some() { "success" } else if o.err != err { "error" } else { "events" };
                    acc.violation(Violation { key: format!("push-vs-iterator api=load-multi what={what}"), expected: format!("events {} error {:?}", obs_kinds(&ok_prefix), err.as_ref().map(|e| &e.display)), observed: format!("backend={} events {} error {:?}", b.name(), obs_kinds(&o.evs), o.err.as_ref().map(|e| &e.display)), case: str_case(s), size: s.len() });
                }
            }
        }
        // repeated load(multi = false)
        let r = catch_unwind(AssertUnwindSafe(|| match b {
            Backend::Str => drive_push1(Parser::new_from_str(s)),
            _ => drive_push1(Parser::new_from_iter(s.chars())),
        }));
        if let Ok((o, per_call)) = r {
            if o.evs != ok_prefix || o.err != err {
                let what = if o.err.is_some() != err.is_some() { "success" } else if o.err != err { "error" } else { "events" };
                acc.violation(Violation { key: format!("push-vs-iterator api=load-single what={what}"), expected: format!("events {} error {:?}", obs_kinds(&ok_prefix), err.as_ref().map(|e| &e.display)), observed: format!("backend={} events {} error {:?}", b.name(), obs_kinds(&o.evs), o.err.as_ref().map(|e| &e.display)), case: str_case(s), size: s.len() });
            } else if err.is_none() {
                // one document per call
                let mut idx = 0;
                for (ci, n) in per_call.iter().enumerate() {
                    let chunk = &o.evs[idx..idx + n];
                    idx += n;
                    let docs = chunk.iter().filter(|x| matches!(x.0, Ev::DS(_))).count();
                    let ends = chunk.iter().filter(|x| matches!(x.0, Ev::DE)).count();
                    if docs > 1 || docs != ends {
                        acc.violation(Violation { key: "load-single-delivers-more-than-one-document".into(), expected: "at most one whole document per call".into(), observed: format!("call #{ci} delivered {}", obs_kinds(chunk)), case: str_case(s), size: s.len() });
                    }
                }
            }
        }
    }
    // keep_tags(true) changes which handles are in force, never what one interface sees and another does
    // not: iterator, load(multi) and load(single) calls and the peeking drive agree under it too
    if let Ok(it) = observe_keep_tags(s, Api::Iter) {
        for api in [Api::Push, Api::Push1, Api::PeekNext] {
            if let Ok(o) = observe_keep_tags(s, api) {
                if o.evs != it.evs || o.err != it.err {
                    let what = if o.err.is_some() != it.err.is_some() { "success" } else if o.err != it.err { "error" } else { "events" };
                    acc.violation(Violation { key: format!("keep-tags api={api:?} vs iterator what={what}"), expected: format!("events {} error {:?}", obs_kinds(&it.evs), it.err.as_ref().map(|e| &e.display)), observed: format!("events {} error {:?}", obs_kinds(&o.evs), o.err.as_ref().map(|e| &e.display)), case: str_case(s), size: s.len() });
                    break;
                }
            }
        }
    }
    // peek-before-every-next drive equals plain iteration (a fixed, long history per input)
    if let Ok(o) = observe(s, Backend::Buf, Api::PeekNext) {
        if o.evs != ok_prefix || o.err != err || o.extra_after_end {
            acc.violation(Violation { key: "peeknext-vs-iterator".into(), expected: obs_kinds(&ok_prefix), observed: format!("{} err={:?} extra_after_end={}", obs_kinds(&o.evs), o.err.as_ref().map(|e| &e.display), o.extra_after_end), case: str_case(s), size: s.len() });
        }
    }
    let k = obs_kinds(&ok_prefix);
    if k.matches('D').count() >= 2 || k.contains('*') {
        if acc.class(h64(&(k.clone(), err.is_some()))) {
            acc.sample(json!({"input": s, "events": k, "error": err.as_ref().map(|e| e.info.clone())}));
        }
    }
}
fn obs_kinds(v: &[(Ev, Sp)]) -> String {
    v.iter().map(|e| e.0.kind()).collect()
}

fn handpicked() -> Vec<String> {
    [
        "&a x\n---\n*a\n",
        "&a x\n...\n*a\n",
        "--- &a x\n--- *a\n",
        "- &a x\n- *a\n---\n- *a\n",
        "&a [x]\n---\n[*a]\n",
        "a\n---\nb\n---\nc\n",
        "a\n...\n---\nb\n...\n",
        "%YAML 1.2\n--- a\n...\n%YAML 1.2\n--- b\n",
        "%TAG !e! tag:e:\n--- !e!x a\n--- !e!x b\n",
        "--- !!str a\n--- !t b\n",
        "---\n---\n---\n",
        "...\n...\n",
        "a: b\n---\n[c, d\n",
        "a\n---\n{\n",
        "- a\n- b\n---\n- c: d\n  e: *x\n",
        "\"a\n---\nb\"\n",
        "--- |\n a\n--- >\n b\n",
        "? a\n: b\n--- # c\n- d\n",
        "&a a: &b b\n*a : *b\n---\n&a c\n",
        "[&a a, *a]\n--- {&a b: *a}\n",
    ]
    .iter()
    .map(|s| s.to_string())
    .collect()
}
/// deep inputs: only for the push-vs-iterator comparison (their histories would be too many)
fn deep_inputs() -> Vec<String> {
    vec![format!("{}a\n", "- ".repeat(255)), format!("{}a\n", "- ".repeat(256)), format!("{}a\n", "- ".repeat(300)), format!("{}a\n", "? ".repeat(300)), format!("{}{}a{}\n", "- ".repeat(100), "[".repeat(200), "]".repeat(200)), format!("{}[\n", "- ".repeat(300)), format!("{}a\n", "- ? ".repeat(200))]
}

pub fn replay(case: &Value) -> Result<Acc, String> {
    let mut acc = Acc::default();
    let s = case_text(case)?;
    if let Some(h) = case.get("history").and_then(|h| h.as_array()) {
        let hist: Vec<Op> = h.iter().map(|x| if x.as_str() == Some("peek") { Op::Peek } else { Op::Next }).collect();
        acc.evals += 1;
        let e = reference(&s);
        match catch_unwind(AssertUnwindSafe(|| conforms(&s, &e, &hist))) {
            Ok(Ok(())) => {}
            Ok(Err((k, want, got))) => acc.violation(Violation { key: "history-diverges-from-cursor-model".into(), expected: format!("step {k}: {want}"), observed: got, case: hist_case(&s, &hist), size: s.len() + hist.len() }),
            Err(_) => acc.violation(Violation { key: "history-panics".into(), expected: "no panic".into(), observed: "panic".into(), case: hist_case(&s, &hist), size: s.len() + hist.len() }),
        }
    } else {
        eval_push(&s, &mut acc);
    }
    Ok(acc)
}

pub fn check(tier: Tier) -> i32 {
    let mut rep = Report::new("C17", tier, "model_checking");
    rep.rule = "inputs: one shortest representative per (event-kind sentence, error) class of all strings up to length 5 over the block, flow, property and document alphabets, 20 hand-listed multi-document/anchor/tag inputs and the yaml-test-suite inputs. (1) stateright BFS over ALL peek/next call histories (state = (input, history), no abstraction): up to depth 2e+3 for streams of e <= 6 events, and all histories with at most P peeks for longer ones; every history is replayed on a fresh real parser and compared step by step with the cursor model (E, i). (2) every input: load(multi=true) and repeated load(multi=false) deliver exactly the iterator's events, spans and error, one document per call. Non-trivial: at least two documents or an alias; distinct: distinct event-kind sentences.".into();
    rep.assumptions = vec!["a history ends at the first error, whoever observed it (after the first error nothing is required)".into(), "the reference E is plain iteration of the same parser on a fresh instance (C17 is a self-consistency property)".into()];
    let budget = Budget::new(wall_cap(tier));
    rep.mandatory_scopes = 2;
    // ---- pool ----
    let mut classes: BTreeMap<String, String> = BTreeMap::new();
    for a in ["blk", "flow", "prop", "doc"] {
        let sp = sigma(a, if tier == Tier::Quick { 5 } else { 6 });
        let (acc, _) = sweep_strings(&sp, &budget, |s, acc| {
            if let Ok(o) = observe(s, Backend::Str, Api::Iter) {
                let key = format!("{}|{}", o.kinds(), o.err.as_ref().map(|e| e.info.as_str()).unwrap_or(""));
                acc.evals += 1;
                // strings arrive in length order per thread: the first one seen is the thread's shortest
                if acc.class(h64(&key)) {
                    acc.counters.insert(format!("{key}\u{1}{s}"), 1);
                }
            }
        });
        for (k, _) in acc.counters {
            let (key, s) = k.split_once('\u{1}').unwrap();
            match classes.get(key) {
                Some(old) if (old.len(), old.as_str()) <= (s.len(), s) => {}
                _ => {
                    classes.insert(key.to_string(), s.to_string());
                }
            }
        }
    }
    let mut pool: Vec<String> = classes.into_values().collect();
    pool.sort_by(|a, b| (a.len(), a).cmp(&(b.len(), b)));
    let pool_classes = pool.len();
    pool.extend(handpicked());
    eprintln!("[C17] pool: {} class representatives + {} hand-listed", pool_classes, pool.len() - pool_classes);
    // ---- (1) histories ----
    let (n_inputs, long_peeks) = match tier {
        Tier::Quick => (usize::MAX, 3usize),
        Tier::Thorough => (usize::MAX, 5usize),
    };
    let mut hist_inputs: Vec<String> = pool.iter().take(n_inputs.min(pool_classes)).cloned().collect();
    hist_inputs.extend(handpicked());
    let cases: Vec<Case> = hist_inputs
        .iter()
        .map(|s| {
            let r = reference(s);
            let e = r.len();
            let (max_peek, max_depth) = if e <= 6 { (2 * e + 3, 2 * e + 3) } else { (long_peeks, e + 2 + long_peeks) };
            Case { input: s.clone(), max_next: e + 2, max_peek, max_depth, reference: r }
        })
        .collect();
    let ncases = cases.len();
    let model = M { cases: Arc::new(cases) };
    let checker = model.checker().threads(crate::engine::threads()).spawn_bfs().join();
    let states = checker.unique_state_count() as u64;
    let generated = checker.state_count() as u64;
    let done = checker.is_done();
    for (_name, path) in checker.discoveries() {
        let st = path.last_state();
        let c = &checker.model().cases[st.case as usize];
        let d = catch_unwind(AssertUnwindSafe(|| conforms(&c.input, &c.reference, &st.hist)));
        let (exp, obs) = match d {
            Ok(Err((k, w, g))) => (format!("step {k}: {w}"), g),
            Ok(Ok(())) => ("conforming".into(), "non-deterministic replay".into()),
            Err(_) => ("no panic".into(), "panic".into()),
        };
        let shape = st.hist.iter().map(|o| if *o == Op::Next { 'n' } else { 'p' }).collect::<String>();
        let key = if obs == "panic" { "history-panics".to_string() } else { format!("history-diverges-from-cursor-model last-op={}", if shape.ends_with('p') { "peek" } else { "next" }) };
        rep.acc.violation(Violation { key, expected: exp, observed: obs, case: hist_case(&c.input, &st.hist), size: c.input.len() + st.hist.len() });
    }
    rep.acc.evals += states;
    rep.scope(&format!("peek/next histories over {ncases} inputs"), states, done);
    // ---- (2) push ----
    pool.extend(deep_inputs());
    let (acc, d) = par_blocks(pool.len() as u64, &budget, |b, acc| eval_push(&pool[b as usize], acc));
    let c = acc.evals;
    rep.acc.merge(acc);
    rep.scope("push vs iterator: pool", c, d == pool.len() as u64);
    match load_suite() {
        Err(e) => rep.acc.machinery_errors.push(e),
        Ok(cases) => {
            let (acc, d) = par_blocks(cases.len() as u64, &budget, |b, acc| eval_push(&cases[b as usize].yaml, acc));
            let c = acc.evals;
            rep.acc.merge(acc);
            rep.scope("push vs iterator: suite", c, d == cases.len() as u64);
        }
    }
    // all strings, push vs iterator (cheap): the four alphabets at N=5/6
    let n = if tier == Tier::Quick { 6 } else { 7 };
    for a in ["blk", "flow", "prop", "doc"] {
        let sp = sigma(a, n);
        let (acc, d) = sweep_strings(&sp, &budget, |s, acc| eval_push(s, acc));
        let c = acc.evals;
        rep.acc.merge(acc);
        rep.scope(&format!("push vs iterator: {}", sp.name), c, d);
    }
    rep.mc = Some((states.max(1), generated.saturating_sub(ncases as u64).max(1), states));
    rep.extra.insert("stateright".into(), json!({"unique_states": states, "states_generated": generated, "is_done": done, "inputs": ncases}));
    rep.finish()
}
