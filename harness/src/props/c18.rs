//! C18 — byte input decodes to the same documents, and decoding always ends (engine E4).
use crate::engine::StrSpace;
use crate::isolate::{announce, child_finish, run_grid, run_grid_range};
use crate::props::sweep::wall_cap;
use crate::report::{h64, Acc, Report, Tier, Violation};
use crate::subject::*;
use saphyr::{LoadableYamlNode, YAMLDecodingTrap, Yaml, YamlDecoder};
use serde_json::{json, Value};
use std::ops::ControlFlow;
use std::panic::{catch_unwind, AssertUnwindSafe};

pub const ENCODINGS: [&str; 6] = ["utf8", "utf8-bom", "utf16le", "utf16le-bom", "utf16be", "utf16be-bom"];
pub const TRAPS: [&str; 6] = ["strict", "ignore", "replace", "call-continue", "call-break", "call-validate"];
/// set by the validating callback when it is handed arguments that cannot be right
static BAD_CALLBACK_ARGS: std::sync::atomic::AtomicBool = std::sync::atomic::AtomicBool::new(false);
pub const BYTES: [u8; 10] = [0x00, 0x0A, 0x20, 0x2D, 0x41, 0x80, 0xC3, 0xE4, 0xFE, 0xFF];
const TEXT_SYMBOLS: &str = "a: \n-é中😀";

fn cb_continue(_: u8, _: u8, _: &[u8], _: &mut String) -> ControlFlow<std::borrow::Cow<'static, str>> {
    ControlFlow::Continue(())
}
fn cb_break(_: u8, _: u8, _: &[u8], _: &mut String) -> ControlFlow<std::borrow::Cow<'static, str>> {
    ControlFlow::Break("stop".into())
}
/// Continues like `cb_continue`, but looks at what it is told: the malformed sequence has at least one
/// byte and lies within the input slice it is shown.
fn cb_validate(malformation_length: u8, _bytes_read_after_malformation: u8, input_at_malformation: &[u8], _: &mut String) -> ControlFlow<std::borrow::Cow<'static, str>> {
    if malformation_length == 0 || malformation_length as usize > input_at_malformation.len() {
        BAD_CALLBACK_ARGS.store(true, std::sync::atomic::Ordering::Relaxed);
    }
    ControlFlow::Continue(())
}
fn trap_of(i: usize) -> YAMLDecodingTrap {
    match i {
        0 => YAMLDecodingTrap::Strict,
        1 => YAMLDecodingTrap::Ignore,
        2 => YAMLDecodingTrap::Replace,
        3 => YAMLDecodingTrap::Call(cb_continue),
        4 => YAMLDecodingTrap::Call(cb_break),
        _ => YAMLDecodingTrap::Call(cb_validate),
    }
}

pub fn encode(text: &str, enc: usize) -> Vec<u8> {
    let mut out = vec![];
    match enc {
        0 => out.extend_from_slice(text.as_bytes()),
        1 => {
            out.extend_from_slice(&[0xEF, 0xBB, 0xBF]);
            out.extend_from_slice(text.as_bytes());
        }
        2 | 3 => {
            if enc == 3 {
                out.extend_from_slice(&[0xFF, 0xFE]);
            }
            for u in text.encode_utf16() {
                out.extend_from_slice(&u.to_le_bytes());
            }
        }
        _ => {
            if enc == 5 {
                out.extend_from_slice(&[0xFE, 0xFF]);
            }
            for u in text.encode_utf16() {
                out.extend_from_slice(&u.to_be_bytes());
            }
        }
    }
    out
}

/// The documented detection rule + std decoders: Ok(text) or Err(()) for malformed input.
pub fn model_decode(b: &[u8]) -> Result<String, ()> {
    enum E {
        U8,
        LE,
        BE,
    }
    let (enc, body) = if b.starts_with(&[0xEF, 0xBB, 0xBF]) {
        (E::U8, &b[3..])
    } else if b.starts_with(&[0xFF, 0xFE]) {
        (E::LE, &b[2..])
    } else if b.starts_with(&[0xFE, 0xFF]) {
        (E::BE, &b[2..])
    } else if b.len() > 1 && b[0] != b[1] && b[0] == 0 {
        (E::BE, b)
    } else if b.len() > 1 && b[0] != b[1] && b[1] == 0 {
        (E::LE, b)
    } else {
        (E::U8, b)
    };
    match enc {
        E::U8 => std::str::from_utf8(body).map(|s| s.to_string()).map_err(|_| ()),
        E::LE | E::BE => {
            if body.len() % 2 != 0 {
                return Err(());
            }
            let units = body.chunks(2).map(|c| if matches!(enc, E::LE) { u16::from_le_bytes([c[0], c[1]]) } else { u16::from_be_bytes([c[0], c[1]]) });
            char::decode_utf16(units).collect::<Result<String, _>>().map_err(|_| ())
        }
    }
}

#[derive(Debug, PartialEq, Clone)]
enum Dec {
    Docs(Vec<Canon>),
    Scan(Er),
    Decode(String),
    Io,
}
/// A reader that hands out its bytes in short reads (`chunk` bytes at a time): `Read` allows it,
/// and the decoder must not take a short read for the end of input.
struct Dribble<'a> {
    data: &'a [u8],
    chunk: usize,
}
impl std::io::Read for Dribble<'_> {
    fn read(&mut self, buf: &mut [u8]) -> std::io::Result<usize> {
        let n = self.chunk.min(buf.len()).min(self.data.len());
        buf[..n].copy_from_slice(&self.data[..n]);
        self.data = &self.data[n..];
        Ok(n)
    }
}
fn decode_dribble(bytes: &[u8], trap: usize, chunk: usize) -> Result<Dec, String> {
    catch_unwind(AssertUnwindSafe(|| {
        let mut d = YamlDecoder::read(Dribble { data: bytes, chunk });
        d.encoding_trap(trap_of(trap));
        let r = d.decode();
        match r {
            Ok(docs) => Dec::Docs(docs.iter().map(canon_yaml).collect()),
            Err(e) => {
                use std::error::Error;
                let dbg = format!("{e:?}");
                if dbg.starts_with("Scan(") {
                    match e.source().and_then(|s| s.downcast_ref::<saphyr::ScanError>()) {
                        Some(se) => Dec::Scan(Er::of(se)),
                        None => Dec::Io,
                    }
                } else if dbg.starts_with("Decode(") {
                    Dec::Decode(e.to_string())
                } else {
                    Dec::Io
                }
            }
        }
    }))
    .map_err(panic_msg)
}
fn decode(bytes: &[u8], trap: usize) -> Result<Dec, String> {
    catch_unwind(AssertUnwindSafe(|| {
        let mut d = YamlDecoder::read(bytes);
        d.encoding_trap(trap_of(trap));
        let r = d.decode();
        let out = match r {
            Ok(docs) => Dec::Docs(docs.iter().map(canon_yaml).collect()),
            Err(e) => {
                // `LoadError` is not nameable from outside the crate: classify through Debug / source()
                use std::error::Error;
                let dbg = format!("{e:?}");
                if dbg.starts_with("Scan(") {
                    match e.source().and_then(|s| s.downcast_ref::<saphyr::ScanError>()) {
                        Some(se) => Dec::Scan(Er::of(se)),
                        None => Dec::Io,
                    }
                } else if dbg.starts_with("Decode(") {
                    Dec::Decode(e.to_string())
                } else {
                    Dec::Io
                }
            }
        };
        out
    }))
    .map_err(panic_msg)
}

fn load_text(text: &str) -> Dec {
    match catch_unwind(AssertUnwindSafe(|| Yaml::load_from_str(text))) {
        Ok(Ok(d)) => Dec::Docs(d.iter().map(canon_yaml).collect()),
        Ok(Err(e)) => Dec::Scan(Er::of(&e)),
        Err(_) => Dec::Io,
    }
}

fn hex(b: &[u8]) -> String {
    b.iter().map(|x| format!("{x:02x}")).collect()
}
fn unhex(h: &str) -> Vec<u8> {
    (0..h.len() / 2).filter_map(|i| u8::from_str_radix(&h[2 * i..2 * i + 2], 16).ok()).collect()
}
fn bytes_case(b: &[u8], trap: usize, text: Option<&str>) -> Value {
    json!({"kind": "bytes", "hex": hex(b), "trap": TRAPS[trap], "text": text})
}

/// Oracle for one (bytes, trap); `text` is Some when the bytes are a well-formed encoding of it.
fn eval_bytes(bytes: &[u8], trap: usize, text: Option<&str>, what: &str, acc: &mut Acc) {
    acc.evals += 1;
    let got = match decode(bytes, trap) {
        Err(msg) => {
            acc.violation(Violation { key: format!("panic scope={what} trap={}", TRAPS[trap]), expected: "decode returns".into(), observed: format!("panic: {msg}"), case: bytes_case(bytes, trap, text), size: bytes.len() });
            return;
        }
        Ok(g) => g,
    };
    if BAD_CALLBACK_ARGS.swap(false, std::sync::atomic::Ordering::Relaxed) {
        acc.violation(Violation { key: format!("callback-arguments scope={what}"), expected: "a malformed sequence of at least one byte inside the slice shown to the callback".into(), observed: "malformation_length is 0 or longer than input_at_malformation".into(), case: bytes_case(bytes, trap, text), size: bytes.len() });
    }
    // the same bytes through readers that return short reads must give the same result
    if bytes.len() > 1 && (what == "texts" || what == "long" || bytes.len() <= 4) {
        for chunk in [1usize, 3] {
            let short = decode_dribble(bytes, trap, chunk);
            if short.as_ref().ok() != Some(&got) {
                acc.violation(Violation { key: format!("short-reads-change-result scope={what} trap={} chunk={chunk}", TRAPS[trap]), expected: format!("{got:?}"), observed: format!("{short:?}"), case: bytes_case(bytes, trap, text), size: bytes.len() });
            }
        }
    }
    let model = model_decode(bytes);
    match (&model, trap) {
        (Ok(t), _) => {
            // well-formed: every trap mode gives the documents of the decoded text
            let want = load_text(t);
            if got != want {
                acc.violation(Violation { key: format!("wellformed-differs scope={what} trap={} got={}", TRAPS[trap], dec_kind(&got)), expected: format!("{want:?}"), observed: format!("{got:?}"), case: bytes_case(bytes, trap, text), size: bytes.len() });
            }
            if let Some(tx) = text {
                if tx != t {
                    acc.machinery_errors.push(format!("codec model disagrees with the encoder on {tx:?}"));
                }
            }
        }
        (Err(()), 0) => {
            if !matches!(got, Dec::Decode(_)) {
                acc.violation(Violation { key: format!("malformed-not-rejected scope={what} got={}", dec_kind(&got)), expected: "Err(LoadError::Decode) with the strict trap".into(), observed: format!("{got:?}"), case: bytes_case(bytes, trap, text), size: bytes.len() });
            }
        }
        (Err(()), 4) => {
            if !matches!(got, Dec::Decode(_)) {
                acc.violation(Violation { key: format!("callback-break-ignored scope={what} got={}", dec_kind(&got)), expected: "Err(LoadError::Decode) when the callback breaks".into(), observed: format!("{got:?}"), case: bytes_case(bytes, trap, text), size: bytes.len() });
            }
        }
        (Err(()), _) => {
            if matches!(got, Dec::Decode(_)) {
                acc.violation(Violation { key: format!("lenient-trap-fails scope={what} trap={}", TRAPS[trap]), expected: "decoding continues".into(), observed: format!("{got:?}"), case: bytes_case(bytes, trap, text), size: bytes.len() });
            }
            if trap == 3 || trap == 5 {
                // a callback that continues behaves like Ignore
                if let Ok(ig) = decode(bytes, 1) {
                    if ig != got {
                        acc.violation(Violation { key: format!("callback-continue-differs-from-ignore scope={what}"), expected: format!("{ig:?}"), observed: format!("{got:?}"), case: bytes_case(bytes, trap, text), size: bytes.len() });
                    }
                }
            }
        }
    }
    let cls = h64(&(what, trap, model.is_ok(), dec_kind(&got), bytes.len().min(12)));
    if acc.class(cls) {
        acc.sample(json!({"scope": what, "bytes": hex(bytes), "trap": TRAPS[trap], "wellformed": model.is_ok(), "result": dec_kind(&got)}));
    }
}
fn dec_kind(d: &Dec) -> &'static str {
    match d {
        Dec::Docs(_) => "docs",
        Dec::Scan(_) => "scan-error",
        Dec::Decode(_) => "decode-error",
        Dec::Io => "io/panic",
    }
}

// ---- grids ----

fn text_space(tier: Tier) -> StrSpace {
    StrSpace::chars("texts", TEXT_SYMBOLS, if tier == Tier::Quick { 5 } else { 7 })
}
fn long_texts() -> Vec<String> {
    let mut v = vec![];
    for n in [3usize, 4, 5, 9, 10, 11, 19, 20, 21, 39, 40, 41, 99, 100, 101, 4096] {
        v.push(format!("a{}", "中".repeat(n - 1)));
        v.push(format!("a{}", "😀".repeat(n - 1)));
        v.push(format!("a{}", "é".repeat(n - 1)));
        v.push(format!("a: {}", "b".repeat(n)));
    }
    v
}
fn byte_space(tier: Tier) -> StrSpace {
    // symbols are indices into BYTES, encoded as chars '0'..'9'
    StrSpace::chars("bytes", "0123456789", if tier == Tier::Quick { 6 } else { 7 })
}
fn damage_texts() -> Vec<String> {
    ["a: b\n", "- é\n- 中\n", "a😀: [b, c]\n", "\"é\\n\"", "a: |\n  中é\n", "-", "a", "- a\n- b\n", "k: 😀\n", "é: 中\n", "a: 'b'\n", "[a, b]\n", "{a: b}\n", "--- a\n...\n", "a # é\n", "? a\n: b\n", "&a b\n", "!t a\n", "a:\n  - b\n", "ab\n"].iter().map(|s| s.to_string()).collect()
}

/// number of scenarios of each grid
fn grid_len(grid: &str, tier: Tier) -> u64 {
    match grid {
        "texts" => text_space(tier).len(),
        "long" => long_texts().len() as u64,
        "bytes" => byte_space(tier).len(),
        "bomtexts" => bom_space(tier).len(),
        _ => damage_texts().len() as u64 * ENCODINGS.len() as u64,
    }
}
/// texts that start with one or two byte-order marks: U+FEFF x {1, 2} + every ASCII-led text (and the empty one)
fn bom_space(tier: Tier) -> StrSpace {
    StrSpace::chars("bomtexts", TEXT_SYMBOLS, if tier == Tier::Quick { 4 } else { 5 })
}
/// A text that starts with U+FEFF. With an encoding BOM in front of it the general oracle applies
/// (the decoder removes the encoding's mark, the text's own mark stays). Without one the text's own
/// mark *is* what the decoder takes for the encoding's; the statement still asks for the documents of
/// loading the text directly.
fn eval_bom_text(t: &str, acc: &mut Acc) {
    for enc in 0..ENCODINGS.len() {
        let b = encode(t, enc);
        if enc % 2 == 1 {
            for trap in 0..TRAPS.len() {
                eval_bytes(&b, trap, Some(t), "bomtexts", acc);
            }
        } else {
            for trap in 0..TRAPS.len() {
                // regression oracle: the documents of the text behind the mark the decoder consumed
                eval_bytes(&b, trap, None, "bomtexts", acc);
            }
            // the statement: same documents as loading the text directly
            acc.evals += 1;
            if let Ok(got) = decode(&b, 0) {
                let want = load_text(t);
                if got != want {
                    acc.violation(Violation { key: format!("bom-led-text-without-encoding-bom enc={}", ENCODINGS[enc]), expected: format!("the documents of loading the text directly: {want:?}"), observed: format!("{got:?}"), case: bytes_case(&b, 0, Some(t)), size: b.len() });
                }
            }
        }
    }
}

pub fn worker(gridspec: &str, from: u64, to: u64) {
    let (grid, tiername) = gridspec.split_once('@').unwrap_or((gridspec, "quick"));
    let tier = Tier::parse(tiername).unwrap_or(Tier::Quick);
    let mut acc = Acc::default();
    let text_ok = |t: &str| t.chars().next().map_or(false, |c| c.is_ascii() && c != '\0');
    match grid {
        "texts" => {
            let sp = text_space(tier);
            sp.for_range(from, to.min(sp.len()), |i, s| {
                announce(i);
                if !text_ok(s) {
                    acc.count("skipped_text_not_ascii_led", 1);
                    return;
                }
                for enc in 0..ENCODINGS.len() {
                    let b = encode(s, enc);
                    for trap in 0..TRAPS.len() {
                        eval_bytes(&b, trap, Some(s), "texts", &mut acc);
                    }
                }
            });
        }
        "bomtexts" => {
            let sp = bom_space(tier);
            sp.for_range(from, to.min(sp.len()), |i, s| {
                announce(i);
                if !s.is_empty() && !text_ok(s) {
                    acc.count("skipped_text_not_ascii_led", 1);
                    return;
                }
                eval_bom_text(&format!("\u{feff}{s}"), &mut acc);
                eval_bom_text(&format!("\u{feff}\u{feff}{s}"), &mut acc);
            });
        }
        "long" => {
            let v = long_texts();
            for i in from..to.min(v.len() as u64) {
                announce(i);
                for enc in 0..ENCODINGS.len() {
                    let b = encode(&v[i as usize], enc);
                    for trap in 0..TRAPS.len() {
                        eval_bytes(&b, trap, Some(&v[i as usize]), "long", &mut acc);
                    }
                }
            }
        }
        "bytes" => {
            let sp = byte_space(tier);
            sp.for_range(from, to.min(sp.len()), |i, s| {
                announce(i);
                let b: Vec<u8> = s.bytes().map(|d| BYTES[(d - b'0') as usize]).collect();
                for trap in 0..TRAPS.len() {
                    eval_bytes(&b, trap, None, "bytes", &mut acc);
                }
            });
        }
        _ => {
            let v = damage_texts();
            for i in from..to.min(v.len() as u64 * 6) {
                announce(i);
                let t = &v[(i / 6) as usize];
                let b = encode(t, (i % 6) as usize);
                for cut in 0..b.len() {
                    for trap in 0..TRAPS.len() {
                        eval_bytes(&b[..cut], trap, None, "truncated", &mut acc);
                    }
                }
                for pos in 0..b.len() {
                    for &x in &BYTES {
                        if b[pos] == x {
                            continue;
                        }
                        let mut m = b.clone();
                        m[pos] = x;
                        for trap in 0..TRAPS.len() {
                            eval_bytes(&m, trap, None, "substituted", &mut acc);
                        }
                    }
                }
            }
        }
    }
    child_finish(&acc);
}

fn scenario_case(grid: &str, tier: Tier, i: u64) -> Value {
    let desc = match grid {
        "texts" => json!({"text": text_space(tier).string_at(i)}),
        "bomtexts" => json!({"text_after_the_marks": bom_space(tier).string_at(i)}),
        "long" => json!({"text_chars": long_texts()[i as usize].chars().count(), "text_prefix": long_texts()[i as usize].chars().take(8).collect::<String>()}),
        "bytes" => {
            let s = byte_space(tier).string_at(i);
            json!({"hex": hex(&s.bytes().map(|d| BYTES[(d - b'0') as usize]).collect::<Vec<u8>>())})
        }
        _ => json!({"text": damage_texts()[(i / 6) as usize], "encoding": ENCODINGS[(i % 6) as usize]}),
    };
    json!({"kind": "grid-scenario", "grid": grid, "tier": tier.name(), "index": i, "scenario": desc})
}

pub fn check(tier: Tier) -> i32 {
    let mut rep = Report::new("C18", tier, "exploration");
    rep.rule = "process-isolated grids with a per-scenario watchdog (10 s, confirmed by a 30 s single-scenario re-run): (i) every text up to length L over {a : space LF - é 中 😀} that starts with an ASCII character, plus run-length texts at the growth-step boundaries (3..4096 characters), in 6 encodings (UTF-8/16LE/16BE, with and without BOM) x 6 traps: decode(bytes) must equal load_from_str(text); (i') the same for every text U+FEFF x {1,2} + t (t ASCII-led or empty, one symbol shorter): with an encoding BOM in front the general oracle applies, without one decode(bytes) must still equal load_from_str(text) (known finding F-C18-02: the character-level parser keeps a leading U+FEFF as content while the decoder takes it for the encoding's mark); (ii) every byte string up to length B over {00 0A 20 2D 41 80 C3 E4 FE FF} x 6 traps, (iii) every truncation and every single-byte substitution of the encodings of 20 texts: the call returns (no panic, no hang); a reference codec (documented detection rule + std's UTF-8/UTF-16 validation) says whether the bytes are well-formed: well-formed => same documents as loading the decoded text, malformed + strict (or breaking callback) => Decode error, malformed + lenient trap => no Decode error, continuing callback == ignore. Non-trivial/distinct: distinct (scope, trap, well-formedness, result kind, length).".into();
    rep.assumptions = vec!["std's str::from_utf8 and char::decode_utf16 define well-formedness".into(), "texts contain no U+0000 (the detection rule relies on NUL patterns)".into(), "Replace-mode output is not compared with a particular replacement policy".into()];
    rep.mandatory_scopes = 5;
    let deadline = std::time::Instant::now() + std::time::Duration::from_secs(wall_cap(tier));
    for (grid, batch) in [("long", 4u64), ("texts", 2000), ("bomtexts", 500), ("damage", 4), ("bytes", 20000)] {
        let len = grid_len(grid, tier);
        let spec = format!("{grid}@{}", tier.name());
        let res = run_grid("C18", &spec, len, batch, 10, deadline);
        let n = res.acc.evals;
        rep.acc.merge(res.acc);
        for (i, how) in &res.abnormal {
            rep.acc.evals += 1;
            rep.acc.violation(Violation { key: format!("{} scope={grid}", how.kind()), expected: "decode returns".into(), observed: how.name(), case: scenario_case(grid, tier, *i), size: *i as usize });
        }
        rep.scope(&format!("{grid} ({len} scenarios)"), n, res.completed);
    }
    rep.finish()
}

pub fn replay(case: &Value) -> Result<Acc, String> {
    let mut acc = Acc::default();
    if case["kind"] == "grid-scenario" {
        let grid = case["grid"].as_str().ok_or("no grid")?;
        let tier = Tier::parse(case["tier"].as_str().unwrap_or("quick")).ok_or("bad tier")?;
        let i = case["index"].as_u64().ok_or("no index")?;
        let deadline = std::time::Instant::now() + std::time::Duration::from_secs(120);
        let res = run_grid_range("C18", &format!("{grid}@{}", tier.name()), i, i + 1, 10, deadline);
        acc.merge(res.acc);
        for (_, how) in res.abnormal {
            acc.violation(Violation { key: format!("{} scope={grid}", how.kind()), expected: "decode returns".into(), observed: how.name(), case: case.clone(), size: i as usize });
        }
    } else {
        let b = unhex(case["hex"].as_str().ok_or("no hex")?);
        let trap = TRAPS.iter().position(|t| Some(*t) == case["trap"].as_str()).ok_or("bad trap")?;
        eval_bytes(&b, trap, case["text"].as_str(), "replay", &mut acc);
    }
    Ok(acc)
}
