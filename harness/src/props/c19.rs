//! C19 — all node types and loading modes hold the same data.
use crate::engine::{par_blocks, sweep_strings, Budget};
use crate::models::fold::{canon_key_eq, resolve_scalar};
use crate::props::sweep::{case_text, str_case, wall_cap};
use crate::report::{h64, Acc, Fnv, Report, Tier, Violation};
use crate::scopes::{load_suite, sigma};
use crate::subject::*;
use hashlink::LinkedHashMap;
use saphyr::{LoadableYamlNode, MarkedYaml, MarkedYamlOwned, Scalar, Yaml, YamlData, YamlDataOwned, YamlLoader, YamlOwned};
use saphyr_parser::Parser;
use serde_json::{json, Value};
use std::hash::{Hash, Hasher};
use std::panic::{catch_unwind, AssertUnwindSafe};

#[derive(Clone, Copy, Debug, PartialEq)]
enum Op {
    PrRoot,
    PrrRoot,
    PrChild,
    PrrChild,
}
const OPS: [Op; 4] = [Op::PrRoot, Op::PrrRoot, Op::PrChild, Op::PrrChild];

// ---- model of resolution on canonical trees ----

/// Returns (success, collided): resolves every Representation below `c`.
fn m_prr(c: &mut Canon, collided: &mut bool) -> bool {
    match c {
        Canon::Rep(v, st, t) => {
            let r = resolve_scalar(v, *st, t);
            let ok = r != Canon::Bad;
            *c = r;
            ok
        }
        Canon::Seq(v) => {
            let mut ok = true;
            for x in v.iter_mut() {
                ok &= m_prr(x, collided);
            }
            ok
        }
        Canon::Map(p) => {
            let mut ok = true;
            let mut out: Vec<(Canon, Canon)> = vec![];
            for (mut k, mut v) in std::mem::take(p) {
                ok &= m_prr(&mut k, collided);
                ok &= m_prr(&mut v, collided);
                if let Some(i) = out.iter().position(|(kk, _)| canon_key_eq(kk, &k)) {
                    *collided = true;
                    out.remove(i);
                }
                out.push((k, v));
            }
            *p = out;
            ok
        }
        _ => true,
    }
}
fn m_pr(c: &mut Canon) -> bool {
    if let Canon::Rep(v, st, t) = c {
        let r = resolve_scalar(v, *st, t);
        let ok = r != Canon::Bad;
        *c = r;
        ok
    } else {
        true
    }
}
fn m_child(c: &mut Canon) -> Option<&mut Canon> {
    match c {
        Canon::Seq(v) => v.first_mut(),
        Canon::Map(p) => p.first_mut().map(|x| &mut x.1),
        _ => None,
    }
}
fn m_apply(c: &mut Canon, op: Op, collided: &mut bool) -> Option<bool> {
    match op {
        Op::PrRoot => Some(m_pr(c)),
        Op::PrrRoot => Some(m_prr(c, collided)),
        Op::PrChild => m_child(c).map(m_pr),
        Op::PrrChild => m_child(c).map(|x| m_prr(x, collided)),
    }
}

/// Equality that ignores the iteration position of pairs inside mappings (used only when a
/// resolution merged colliding keys, whose position the property does not constrain).
fn eq_unordered(a: &Canon, b: &Canon) -> bool {
    match (a, b) {
        (Canon::Seq(x), Canon::Seq(y)) => x.len() == y.len() && x.iter().zip(y).all(|(p, q)| eq_unordered(p, q)),
        (Canon::Map(x), Canon::Map(y)) => x.len() == y.len() && x.iter().all(|(k, v)| y.iter().any(|(k2, v2)| eq_unordered(k, k2) && eq_unordered(v, v2))),
        _ => canon_key_eq(a, b),
    }
}
fn eq_mode(a: &Canon, b: &Canon, collided: bool) -> bool {
    if collided {
        eq_unordered(a, b)
    } else {
        eq_strict(a, b)
    }
}
fn eq_strict(a: &Canon, b: &Canon) -> bool {
    match (a, b) {
        (Canon::Seq(x), Canon::Seq(y)) => x.len() == y.len() && x.iter().zip(y).all(|(p, q)| eq_strict(p, q)),
        (Canon::Map(x), Canon::Map(y)) => x.len() == y.len() && x.iter().zip(y).all(|(p, q)| eq_strict(&p.0, &q.0) && eq_strict(&p.1, &q.1)),
        _ => canon_key_eq(a, b),
    }
}

// ---- per node type operations ----

macro_rules! node_ops {
    ($m:ident, $ty:ty, $canon:path, $seqpat:path, $mappat:path, ($($data:tt)*)) => {
        mod $m {
            use super::*;
            pub fn load_deferred<'a>(s: &'a str) -> Result<Vec<$ty>, Er> {
                let mut p = Parser::new_from_str(s);
                let mut l: YamlLoader<$ty> = YamlLoader::default();
                l.early_parse(false);
                p.load(&mut l, true).map_err(|e| Er::of(&e))?;
                Ok(l.into_documents())
            }
            pub fn canon<'a>(n: &$ty) -> Canon {
                $canon(n)
            }
            pub fn apply<'a>(n: &mut $ty, op: Op) -> Option<bool> {
                match op {
                    Op::PrRoot => Some(n$($data)*.parse_representation()),
                    Op::PrrRoot => Some(n$($data)*.parse_representation_recursive()),
                    Op::PrChild | Op::PrrChild => {
                        let child: Option<&mut $ty> = match &mut (*n)$($data)* {
                            $seqpat(v) => v.first_mut(),
                            $mappat(m) => m.iter_mut().next().map(|(_, v)| v),
                            _ => None,
                        };
                        child.map(|c| if op == Op::PrChild { c$($data)*.parse_representation() } else { c$($data)*.parse_representation_recursive() })
                    }
                }
            }
            /// Every accessor of every node agrees with the node's variant (the view a user of the
            /// typed API has of "the same data").
            pub fn accessors<'a>(n: &$ty, ntname: &str, s: &str, acc: &mut Acc) {
                let c = canon(n);
                let d = &n$($data)*;
                let mut bad: Vec<&'static str> = vec![];
                let mut chk = |name: &'static str, ok: bool| {
                    if !ok {
                        bad.push(name);
                    }
                };
                chk("is_null", d.is_null() == (c == Canon::Null));
                chk("is_boolean", d.is_boolean() == matches!(c, Canon::Bool(_)));
                chk("is_integer", d.is_integer() == matches!(c, Canon::Int(_)));
                chk("is_floating_point", d.is_floating_point() == matches!(c, Canon::Float(_)));
                chk("is_string", d.is_string() == matches!(c, Canon::Str(_)));
                chk("is_sequence", d.is_sequence() == matches!(c, Canon::Seq(_)));
                chk("is_mapping", d.is_mapping() == matches!(c, Canon::Map(_)));
                chk("is_badvalue", d.is_badvalue() == (c == Canon::Bad));
                chk("is_alias", d.is_alias() == matches!(c, Canon::Alias(_)));
                chk("is_representation", d.is_representation() == matches!(c, Canon::Rep(..)));
                chk("is_value", d.is_value() == matches!(c, Canon::Null | Canon::Bool(_) | Canon::Int(_) | Canon::Float(_) | Canon::Str(_)));
                chk("as_bool", d.as_bool() == if let Canon::Bool(b) = &c { Some(*b) } else { None });
                chk("as_integer", d.as_integer() == if let Canon::Int(i) = &c { Some(*i) } else { None });
                chk("as_floating_point", d.as_floating_point().map(float_bits) == if let Canon::Float(b) = &c { Some(*b) } else { None });
                chk("as_str", d.as_str() == if let Canon::Str(x) = &c { Some(x.as_str()) } else { None });
                let seq_len = if let Canon::Seq(v) = &c { Some(v.len()) } else { None };
                let map_len = if let Canon::Map(v) = &c { Some(v.len()) } else { None };
                chk("as_sequence", d.as_sequence().map(|v| v.len()) == seq_len);
                chk("as_vec", d.as_vec().map(|v| v.len()) == seq_len);
                chk("as_mapping", d.as_mapping().map(|m| m.len()) == map_len);
                // mutable and consuming flavours, on copies
                let mut m = n.clone();
                {
                    let dm = &mut m$($data)*;
                    chk("as_bool_mut", dm.as_bool_mut().map(|x| *x) == d.as_bool());
                    chk("as_integer_mut", dm.as_integer_mut().map(|x| *x) == d.as_integer());
                    chk("as_floating_point_mut", dm.as_floating_point_mut().map(|x| float_bits(*x)) == d.as_floating_point().map(float_bits));
                    chk("as_str_mut", dm.as_str_mut().map(|x| x.to_string()) == d.as_str().map(|x| x.to_string()));
                    chk("as_sequence_mut", dm.as_sequence_mut().map(|v| v.len()) == seq_len);
                    chk("as_vec_mut", dm.as_vec_mut().map(|v| v.len()) == seq_len);
                    chk("as_mapping_mut", dm.as_mapping_mut().map(|v| v.len()) == map_len);
                }
                chk("into_bool", n.clone()$($data)*.into_bool() == d.as_bool());
                chk("into_integer", n.clone()$($data)*.into_integer() == d.as_integer());
                chk("into_floating_point", n.clone()$($data)*.into_floating_point().map(float_bits) == d.as_floating_point().map(float_bits));
                chk("into_string", n.clone()$($data)*.into_string() == d.as_str().map(|x| x.to_string()));
                chk("into_vec", n.clone()$($data)*.into_vec().map(|v| v.len()) == seq_len);
                chk("into_sequence", n.clone()$($data)*.into_sequence().map(|v| v.len()) == seq_len);
                chk("into_mapping", n.clone()$($data)*.into_mapping().map(|v| v.len()) == map_len);
                // consuming iteration yields the items of a sequence in order and nothing for anything else
                {
                    let it: Vec<Canon> = n.clone()$($data)*.into_iter().map(|x| canon(&x)).collect();
                    chk("into_iter", if let Canon::Seq(items) = &c { it == *items } else { it.is_empty() });
                }
                if let Canon::Seq(items) = &c {
                    for i in [0usize, items.len().saturating_sub(1), items.len()] {
                        let want = items.get(i);
                        chk("as_sequence_get", d.as_sequence_get(i).map(canon).as_ref() == want);
                        chk("as_sequence_get_mut", m$($data)*.as_sequence_get_mut(i).map(|x| canon(&*x)).as_ref() == want);
                    }
                } else {
                    chk("as_sequence_get(non-sequence)", d.as_sequence_get(0).is_none());
                }
                for name in bad {
                    acc.violation(Violation { key: format!("accessor-disagrees nt={ntname} accessor={name} variant={}", variant_name(&c)), expected: format!("the view of the variant {c:?}"), observed: format!("{name} says otherwise"), case: str_case(s), size: s.len() });
                }
                if let Some(v) = d.as_sequence() {
                    for x in v.iter() {
                        accessors(x, ntname, s, acc);
                    }
                }
                if let Some(mm) = d.as_mapping() {
                    for (k, v) in mm.iter() {
                        accessors(k, ntname, s, acc);
                        accessors(v, ntname, s, acc);
                    }
                }
            }
            pub fn accessors_of_input<'a>(s: &'a str, ntname: &str, acc: &mut Acc) {
                use saphyr::LoadableYamlNode;
                if let Ok(Ok(docs)) = catch_unwind(AssertUnwindSafe(|| <$ty>::load_from_str(s))) {
                    for d in &docs {
                        accessors(d, ntname, s, acc);
                    }
                }
                if let Ok(Ok(docs)) = catch_unwind(AssertUnwindSafe(|| load_deferred(s))) {
                    for d in &docs {
                        accessors(d, ntname, s, acc);
                    }
                }
            }
            /// All histories up to `depth` on one deferred document, against the model.
            pub fn histories<'a>(doc: &$ty, depth: usize, ntname: &str, s: &str, acc: &mut Acc) -> u64 {
                let start = canon(doc);
                let mut n = 0u64;
                let mut hist: Vec<Op> = vec![];
                fn rec<'a>(doc: &$ty, start: &Canon, hist: &mut Vec<Op>, depth: usize, ntname: &str, s: &str, acc: &mut Acc, n: &mut u64) {
                    // replay the history on fresh copies
                    *n += 1;
                    let mut subj = doc.clone();
                    let mut model = start.clone();
                    let mut collided = false;
                    for (i, op) in hist.iter().enumerate() {
                        let r = catch_unwind(AssertUnwindSafe(|| apply(&mut subj, *op)));
                        let Ok(r) = r else {
                            acc.violation(Violation { key: format!("resolve-panic nt={ntname} op={op:?}"), expected: "no panic".into(), observed: "panic".into(), case: hist_case(s, ntname, hist), size: s.len() + hist.len() });
                            return;
                        };
                        let m = m_apply(&mut model, *op, &mut collided);
                        let got = canon(&subj);
                        if r != m {
                            acc.violation(Violation { key: format!("resolve-return nt={ntname} op={op:?} step={i}"), expected: format!("{m:?}"), observed: format!("{r:?}"), case: hist_case(s, ntname, hist), size: s.len() + hist.len() });
                            return;
                        }
                        if !eq_mode(&model, &got, collided) {
                            acc.violation(Violation { key: format!("resolve-tree nt={ntname} op={op:?} what={}", diff_kind(&model, &got)), expected: format!("{model:?}"), observed: format!("{got:?}"), case: hist_case(s, ntname, hist), size: s.len() + hist.len() });
                            return;
                        }
                    }
                    if hist.len() < depth {
                        for op in OPS {
                            hist.push(op);
                            rec(doc, start, hist, depth, ntname, s, acc, n);
                            hist.pop();
                        }
                    }
                }
                rec(doc, &start, &mut hist, depth, ntname, s, acc, &mut n);
                n
            }
        }
    };
}
node_ops!(ops_yaml, Yaml<'a>, canon_yaml, Yaml::Sequence, Yaml::Mapping, ());
node_ops!(ops_owned, YamlOwned, canon_owned, YamlOwned::Sequence, YamlOwned::Mapping, ());
node_ops!(ops_marked, MarkedYaml<'a>, canon_marked, YamlData::Sequence, YamlData::Mapping, (.data));
node_ops!(ops_marked_owned, MarkedYamlOwned, canon_marked_owned, YamlDataOwned::Sequence, YamlDataOwned::Mapping, (.data));

fn variant_name(c: &Canon) -> &'static str {
    match c {
        Canon::Null => "Null",
        Canon::Bool(_) => "Bool",
        Canon::Int(_) => "Int",
        Canon::Float(_) => "Float",
        Canon::Str(_) => "Str",
        Canon::Rep(..) => "Representation",
        Canon::Bad => "BadValue",
        Canon::Alias(_) => "Alias",
        Canon::Seq(_) => "Seq",
        Canon::Map(_) => "Map",
    }
}
fn diff_kind(model: &Canon, got: &Canon) -> &'static str {
    fn has_bad(c: &Canon) -> bool {
        match c {
            Canon::Bad => true,
            Canon::Seq(v) => v.iter().any(has_bad),
            Canon::Map(p) => p.iter().any(|(k, v)| has_bad(k) || has_bad(v)),
            _ => false,
        }
    }
    if has_bad(got) && !has_bad(model) {
        "badvalue-appeared"
    } else {
        "other"
    }
}

fn hist_case(s: &str, nt: &str, hist: &[Op]) -> Value {
    let mut c = str_case(s);
    c["node_type"] = json!(nt);
    c["history"] = json!(hist.iter().map(|o| format!("{o:?}")).collect::<Vec<_>>());
    c
}

// ---- span-insensitive equality / hashing of marked nodes ----

fn respan<'a>(n: &MarkedYaml<'a>, delta: usize) -> MarkedYaml<'a> {
    let sp = Sp::of(&n.span);
    let span = Sp { si: sp.si + delta, sl: sp.sl + 1, sc: sp.sc + 3, ei: sp.ei + delta, el: sp.el + 1, ec: sp.ec + 3 }.to_span();
    let data = match &n.data {
        YamlData::Sequence(v) => YamlData::Sequence(v.iter().map(|c| respan(c, delta)).collect()),
        YamlData::Mapping(m) => {
            let mut out = LinkedHashMap::new();
            for (k, v) in m.iter() {
                out.insert(respan(k, delta), respan(v, delta));
            }
            YamlData::Mapping(out)
        }
        other => other.clone(),
    };
    MarkedYaml { span, data }
}
fn respan_owned(n: &MarkedYamlOwned, delta: usize) -> MarkedYamlOwned {
    let sp = Sp::of(&n.span);
    let span = Sp { si: sp.si + delta, sl: sp.sl + 1, sc: sp.sc + 3, ei: sp.ei + delta, el: sp.el + 1, ec: sp.ec + 3 }.to_span();
    let data = match &n.data {
        YamlDataOwned::Sequence(v) => YamlDataOwned::Sequence(v.iter().map(|c| respan_owned(c, delta)).collect()),
        YamlDataOwned::Mapping(m) => {
            let mut out = LinkedHashMap::new();
            for (k, v) in m.iter() {
                out.insert(respan_owned(k, delta), respan_owned(v, delta));
            }
            YamlDataOwned::Mapping(out)
        }
        other => other.clone(),
    };
    MarkedYamlOwned { span, data }
}
fn fnv_hash<T: Hash>(t: &T) -> u64 {
    let mut h = Fnv::default();
    t.hash(&mut h);
    h.finish()
}

fn scalar_roundtrip(y: &Yaml, bad: &mut Vec<String>) {
    match y {
        Yaml::Value(s) => {
            let o = s.clone().into_owned();
            let back: Scalar = o.as_scalar();
            if back != *s || canon_scalar(&back) != canon_scalar(s) {
                bad.push(format!("{s:?} -> {o:?} -> {back:?}"));
            }
        }
        Yaml::Sequence(v) => v.iter().for_each(|c| scalar_roundtrip(c, bad)),
        Yaml::Mapping(m) => m.iter().for_each(|(k, v)| {
            scalar_roundtrip(k, bad);
            scalar_roundtrip(v, bad)
        }),
        _ => {}
    }
}

pub fn eval_str(s: &str, depth: usize, acc: &mut Acc) {
    acc.evals += 1;
    // 1. the four eager loads
    let mut results = vec![];
    for nt in NODE_TYPES {
        match load_canon(s, nt) {
            Err(_) => return, // panic: C01's business
            Ok(r) => results.push(r),
        }
    }
    for (i, r) in results.iter().enumerate().skip(1) {
        if *r != results[0] {
            let what = match (&results[0], r) {
                (Ok(_), Ok(_)) => "data",
                (Err(_), Err(_)) => "error",
                _ => "success",
            };
            acc.violation(Violation { key: format!("node-types-differ nt={:?} what={what}", NODE_TYPES[i]), expected: format!("same as Yaml: {:?}", results[0]), observed: format!("{r:?}"), case: str_case(s), size: s.len() });
        }
    }
    let Ok(eager) = &results[0] else { return };
    // 2. deferred + resolution histories (depth 0 history = plain deferred load; the history
    //    [PrrRoot] is the "resolve the whole tree" mode of the statement)
    macro_rules! deferred {
        ($m:ident, $name:literal) => {{
            match catch_unwind(AssertUnwindSafe(|| $m::load_deferred(s))) {
                Err(_) => {}
                Ok(Err(e)) => acc.violation(Violation { key: format!("deferred-load-error nt={}", $name), expected: "loads like the eager mode".into(), observed: e.display, case: str_case(s), size: s.len() }),
                Ok(Ok(docs)) => {
                    if docs.len() != eager.len() {
                        acc.violation(Violation { key: format!("deferred-doc-count nt={}", $name), expected: format!("{}", eager.len()), observed: format!("{}", docs.len()), case: str_case(s), size: s.len() });
                    }
                    for (d, e) in docs.iter().zip(eager) {
                        // the deferred mode defers: every scalar leaf is an unresolved representation
                        fn resolved_leaf(c: &Canon) -> bool {
                            match c {
                                Canon::Null | Canon::Bool(_) | Canon::Int(_) | Canon::Float(_) | Canon::Str(_) => true,
                                Canon::Seq(v) => v.iter().any(resolved_leaf),
                                Canon::Map(p) => p.iter().any(|(k, v)| resolved_leaf(k) || resolved_leaf(v)),
                                _ => false,
                            }
                        }
                        if resolved_leaf(&$m::canon(d)) {
                            acc.violation(Violation { key: format!("deferred-load-resolves nt={}", $name), expected: "unresolved representations after early_parse(false)".into(), observed: format!("{:?}", $m::canon(d)), case: str_case(s), size: s.len() });
                        }
                        // whole-tree resolution equals the eager tree
                        let mut c = d.clone();
                        let _ = catch_unwind(AssertUnwindSafe(|| $m::apply(&mut c, Op::PrrRoot)));
                        let got = $m::canon(&c);
                        // both sides come from the same library: the trees must be identical, order included
                        if !eq_strict(&got, e) {
                            acc.violation(Violation { key: format!("deferred-vs-eager nt={} what={}", $name, diff_kind(e, &got)), expected: format!("{e:?}"), observed: format!("{got:?}"), case: str_case(s), size: s.len() });
                        }
                        let n = $m::histories(d, depth, $name, s, acc);
                        acc.count("histories", n);
                    }
                }
            }
        }};
    }
    deferred!(ops_yaml, "Yaml");
    deferred!(ops_owned, "Owned");
    deferred!(ops_marked, "Marked");
    deferred!(ops_marked_owned, "MarkedOwned");
    // 2b. the typed accessors of every node (eager and deferred documents) agree with its variant
    ops_yaml::accessors_of_input(s, "Yaml", acc);
    ops_owned::accessors_of_input(s, "Owned", acc);
    ops_marked::accessors_of_input(s, "Marked", acc);
    ops_marked_owned::accessors_of_input(s, "MarkedOwned", acc);
    // 3. marked equality / hashing ignore spans
    if let Ok(Ok(docs)) = catch_unwind(AssertUnwindSafe(|| MarkedYaml::load_from_str(s))) {
        for d in &docs {
            let t = respan(d, 7);
            if *d != t || fnv_hash(d) != fnv_hash(&t) {
                acc.violation(Violation { key: "marked-eq-hash-depends-on-span nt=Marked".into(), expected: "equal and equally hashed copies".into(), observed: format!("eq={} hash_eq={}", *d == t, fnv_hash(d) == fnv_hash(&t)), case: str_case(s), size: s.len() });
            }
            if let (YamlData::Mapping(m), YamlData::Mapping(m2)) = (&d.data, &t.data) {
                for (k2, v2) in m2.iter() {
                    if m.get(k2).map(canon_marked) != Some(canon_marked(v2)) {
                        acc.violation(Violation { key: "marked-lookup-depends-on-span nt=Marked".into(), expected: "key found whatever its span".into(), observed: format!("key {:?} not found", canon_marked(k2)), case: str_case(s), size: s.len() });
                    }
                }
            }
        }
    }
    if let Ok(Ok(docs)) = catch_unwind(AssertUnwindSafe(|| MarkedYamlOwned::load_from_str(s))) {
        for d in &docs {
            let t = respan_owned(d, 7);
            if *d != t || fnv_hash(d) != fnv_hash(&t) {
                acc.violation(Violation { key: "marked-eq-hash-depends-on-span nt=MarkedOwned".into(), expected: "equal and equally hashed copies".into(), observed: format!("eq={} hash_eq={}", *d == t, fnv_hash(d) == fnv_hash(&t)), case: str_case(s), size: s.len() });
            }
            if let (YamlDataOwned::Mapping(m), YamlDataOwned::Mapping(m2)) = (&d.data, &t.data) {
                for (k2, v2) in m2.iter() {
                    if m.get(k2).map(canon_marked_owned) != Some(canon_marked_owned(v2)) {
                        acc.violation(Violation { key: "marked-lookup-depends-on-span nt=MarkedOwned".into(), expected: "key found whatever its span".into(), observed: format!("key {:?} not found", canon_marked_owned(k2)), case: str_case(s), size: s.len() });
                    }
                }
            }
        }
    }
    // 3b. marked nodes with the SAME spans but different data are different
    if let Ok(Ok(docs)) = catch_unwind(AssertUnwindSafe(|| MarkedYaml::load_from_str(s))) {
        fn mutate<'a>(n: &MarkedYaml<'a>, done: &mut bool) -> MarkedYaml<'a> {
            let data = match &n.data {
                YamlData::Value(_) | YamlData::Representation(..) if !*done => {
                    *done = true;
                    YamlData::Value(Scalar::String("\u{1}mutated\u{1}".into()))
                }
                YamlData::Sequence(v) => YamlData::Sequence(v.iter().map(|c| mutate(c, done)).collect()),
                YamlData::Mapping(m) => {
                    let mut out = LinkedHashMap::new();
                    for (k, v) in m.iter() {
                        // mutate values only (mutating a key could merge entries)
                        out.insert(k.clone(), mutate(v, done));
                    }
                    YamlData::Mapping(out)
                }
                other => other.clone(),
            };
            MarkedYaml { span: n.span, data }
        }
        for d in &docs {
            let mut done = false;
            let t = mutate(d, &mut done);
            if done && *d == t {
                acc.violation(Violation { key: "marked-eq-ignores-data nt=Marked".into(), expected: "nodes with different data are different, whatever their spans".into(), observed: format!("{:?} == {:?}", canon_marked(d), canon_marked(&t)), case: str_case(s), size: s.len() });
            }
        }
    }
    if let Ok(Ok(docs)) = catch_unwind(AssertUnwindSafe(|| MarkedYamlOwned::load_from_str(s))) {
        fn mutate_o(n: &MarkedYamlOwned, done: &mut bool) -> MarkedYamlOwned {
            let data = match &n.data {
                YamlDataOwned::Value(_) | YamlDataOwned::Representation(..) if !*done => {
                    *done = true;
                    YamlDataOwned::Value(saphyr::ScalarOwned::String("\u{1}mutated\u{1}".into()))
                }
                YamlDataOwned::Sequence(v) => YamlDataOwned::Sequence(v.iter().map(|c| mutate_o(c, done)).collect()),
                YamlDataOwned::Mapping(m) => {
                    let mut out = LinkedHashMap::new();
                    for (k, v) in m.iter() {
                        out.insert(k.clone(), mutate_o(v, done));
                    }
                    YamlDataOwned::Mapping(out)
                }
                other => other.clone(),
            };
            MarkedYamlOwned { span: n.span, data }
        }
        for d in &docs {
            let mut done = false;
            let t = mutate_o(d, &mut done);
            if done && *d == t {
                acc.violation(Violation { key: "marked-eq-ignores-data nt=MarkedOwned".into(), expected: "nodes with different data are different, whatever their spans".into(), observed: format!("{:?} == {:?}", canon_marked_owned(d), canon_marked_owned(&t)), case: str_case(s), size: s.len() });
            }
        }
    }
    // 4. borrowed -> owned -> borrowed scalar identity
    if let Ok(Ok(docs)) = catch_unwind(AssertUnwindSafe(|| Yaml::load_from_str(s))) {
        let mut bad = vec![];
        docs.iter().for_each(|d| scalar_roundtrip(d, &mut bad));
        if let Some(b) = bad.first() {
            acc.violation(Violation { key: "scalar-owned-roundtrip".into(), expected: "identity".into(), observed: b.clone(), case: str_case(s), size: s.len() });
        }
    }
    if !eager.is_empty() {
        let cls = h64(&format!("{eager:?}").chars().map(|c| if c.is_ascii_digit() { '9' } else { c }).collect::<String>());
        let nontrivial = eager.iter().any(|d| matches!(d, Canon::Seq(_) | Canon::Map(_)));
        if nontrivial && acc.class(cls) {
            acc.sample(json!({"input": s, "eager": format!("{eager:?}")}));
        }
    }
}

pub fn replay(case: &Value) -> Result<Acc, String> {
    let mut acc = Acc::default();
    eval_str(&case_text(case)?, 3, &mut acc);
    Ok(acc)
}

pub fn check(tier: Tier) -> i32 {
    let mut rep = Report::new("C19", tier, "model_checking");
    rep.rule = "every string up to length N over the block, flow and property alphabets, the C08 boundary texts as one-pair documents and the yaml-test-suite inputs: (1) the 4 eager loads give identical canonical data or the identical error; (2) for each node type the document is loaded with deferred resolution and EVERY history of up to `depth` operations from {parse_representation, parse_representation_recursive} x {root, first child} is replayed on a fresh clone and compared step by step (tree and return value) with a model of resolution on canonical trees; whole-tree resolution equals the eager tree; (3) marked nodes equal / hash equal / are found in maps regardless of spans; (4) Scalar -> into_owned -> as_scalar is the identity. Non-trivial: the document holds a collection; distinct: digit-collapsed canonical trees.".into();
    rep.assumptions = vec!["scalar resolution inside the model uses the subject's public resolver (C08 decides its correctness)".into(), "when resolution makes two keys of one mapping equal, the later pair wins and its position is not constrained".into()];
    let budget = Budget::new(wall_cap(tier));
    let (n, depth) = match tier {
        Tier::Quick => (6, 2),
        Tier::Thorough => (7, 3),
    };
    rep.mandatory_scopes = 3;
    let mut states = 0;
    for a in ["blk", "flow", "prop"] {
        let sp = sigma(a, n);
        let (acc, done) = sweep_strings(&sp, &budget, |s, acc| eval_str(s, depth, acc));
        let c = acc.evals;
        states += c;
        rep.acc.merge(acc);
        rep.scope(&sp.name, c, done);
    }
    for (sz, d) in if tier == Tier::Quick { vec![(3usize, 2usize), (4, 1)] } else { vec![(4, 2), (5, 1)] } {
        let (acc, done) = crate::props::sweep::sweep_gen(sz, d, &budget, |s, acc| eval_str(s, 2, acc));
        let c = acc.evals;
        states += c;
        rep.acc.merge(acc);
        rep.scope(&format!("gen({sz},{d})"), c, done);
    }
    let table: Vec<String> = crate::props::c08::boundary_texts().into_iter().filter(|t| !t.contains('\n')).flat_map(|t| vec![format!("k: {t}\n"), format!("[{t}, {t}]\n"), format!("? {t}\n: {t}\n{t}x: [{t}]\n")]).collect();
    let mut table = table;
    // tagged scalars in every style, and keys that become equal once resolved
    for tag in ["", "!!int", "!!float", "!!bool", "!!null", "!!str", "!t"] {
        for text in ["1", "x", "true", "~", "1.5", "0x1"] {
            for (l, r) in [("", ""), ("\"", "\""), ("'", "'"), ("|-\n  ", ""), (">-\n  ", "")] {
                table.push(format!("- {tag} {l}{text}{r}\n"));
                table.push(format!("k: {tag} {l}{text}{r}\n"));
            }
            table.push(format!("{tag} {text}: v\n"));
        }
    }
    for (a, b) in [("1", "0x1"), ("a", "\"a\""), ("~", "null"), ("1", "+1"), ("0o7", "7"), ("1.0", "1.00"), ("true", "true")] {
        table.push(format!("{{{a}: x, 2: y, {b}: z}}\n"));
        table.push(format!("{a}: x\nm: y\n{b}: z\n"));
        table.push(format!("- {{{a}: x, {b}: z, 2: y}}\n"));
    }
    let (acc, done) = par_blocks(table.len() as u64, &budget, |b, acc| eval_str(&table[b as usize], 3, acc));
    let c = acc.evals;
    states += c;
    rep.acc.merge(acc);
    rep.scope("boundary-text documents", c, done == table.len() as u64);
    match load_suite() {
        Err(e) => rep.acc.machinery_errors.push(e),
        Ok(cases) => {
            let (acc, done) = par_blocks(cases.len() as u64, &budget, |b, acc| eval_str(&cases[b as usize].yaml, 3, acc));
            let c = acc.evals;
            states += c;
            rep.acc.merge(acc);
            rep.scope("suite", c, done == cases.len() as u64);
        }
    }
    let hist = rep.acc.counters.get("histories").copied().unwrap_or(0);
    rep.mc = Some((states + hist, hist, hist));
    rep.extra.insert("explanation".into(), json!("states = inputs + operation histories explored; transitions / traces = histories replayed on the real node types step by step against the resolution model"));
    rep.finish()
}
