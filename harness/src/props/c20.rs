//! C20 — mapping lookups, equality and hashing are mutually consistent.
use crate::engine::{par_blocks, sweep_strings, Budget, StrSpace};
use crate::props::sweep::{case_text, str_case, wall_cap};
use crate::report::{h64, Acc, Fnv, Report, Tier, Violation};
use crate::subject::*;
use saphyr::{LoadableYamlNode, MarkedYaml, MarkedYamlOwned, Scalar, ScalarOwned, Yaml, YamlData, YamlDataOwned, YamlOwned};
use serde_json::{json, Value};
use std::hash::{BuildHasher, Hash, Hasher};
use std::panic::{catch_unwind, AssertUnwindSafe};

pub const SIGMA_KEY: &str = "a1~: ,{}[]\"-";

fn fnv_hash<T: Hash>(t: &T) -> u64 {
    let mut h = Fnv::default();
    t.hash(&mut h);
    h.finish()
}

fn probes_for(pairs: &[(Canon, Canon)]) -> Vec<String> {
    let mut p: Vec<String> = vec![];
    for (k, _) in pairs {
        match k {
            Canon::Str(s) => p.push(s.clone()),
            Canon::Int(i) => p.push(i.to_string()),
            Canon::Null => {
                p.push("~".into());
                p.push("null".into())
            }
            Canon::Bool(b) => p.push(b.to_string()),
            Canon::Float(f) => p.push(f64::from_bits(*f).to_string()),
            Canon::Rep(v, _, _) => p.push(v.clone()),
            _ => {}
        }
    }
    for s in ["1", "1.0", "~", "null", "true", "zz", ""] {
        p.push(s.into());
    }
    p.sort();
    p.dedup();
    p
}

pub const BIG_FAMILIES: [&str; 4] = ["server-node-NNNNNN (same length, same first 12 bytes)", "kN (variable length)", "NNNNNN-suffix (same length, differing first bytes)", "prefix8 + N x 'x' (same first 8 bytes, differing lengths)"];
pub fn big_key(fam: usize, i: usize) -> String {
    match fam {
        0 => format!("server-node-{i:06}"),
        1 => format!("k{i}"),
        2 => format!("{i:06}-suffix"),
        _ => format!("prefix8_{}", "x".repeat(i % 900)) + &format!("{}", i / 900),
    }
}
fn big_text(fam: usize, n: usize) -> String {
    let mut s = String::new();
    for i in 0..n {
        s.push_str(&big_key(fam, i));
        s.push_str(": ");
        s.push_str(&i.to_string());
        s.push('\n');
    }
    s
}
pub fn eval_big(fam: usize, n: usize, absent: usize, acc: &mut Acc) {
    acc.evals += 1;
    let text = big_text(fam, n);
    match catch_unwind(AssertUnwindSafe(|| Yaml::load_from_str(&text))) {
        Ok(Ok(d)) if d.len() == 1 => l_yaml::check_big(&d[0], fam, n, absent, "Yaml", acc),
        _ => acc.machinery_errors.push(format!("big mapping family {fam} does not load as Yaml")),
    }
    if let Ok(Ok(d)) = catch_unwind(AssertUnwindSafe(|| YamlOwned::load_from_str(&text))) {
        l_owned::check_big(&d[0], fam, n, absent, "Owned", acc);
    }
    if let Ok(Ok(d)) = catch_unwind(AssertUnwindSafe(|| MarkedYaml::load_from_str(&text))) {
        l_marked::check_big(&d[0], fam, n, absent, "Marked", acc);
    }
    if let Ok(Ok(d)) = catch_unwind(AssertUnwindSafe(|| MarkedYamlOwned::load_from_str(&text))) {
        l_marked_owned::check_big(&d[0], fam, n, absent, "MarkedOwned", acc);
    }
    if acc.class(h64(&("big", fam, n))) {
        acc.sample(json!({"big_mapping_family": BIG_FAMILIES[fam], "keys": n}));
    }
}
/// Documents whose nodes stay unresolved (`early_parse(false)`): tagged Representation keys that
/// spell the same tag through different handle/suffix splits, styles, duplicates.
pub const DEFERRED_DOCS: [&str; 10] = [
    "{!!str a: 1, !<tag:yaml.org,2002:str> a: 2}\n",
    "%TAG !e! tag:yaml.org,2002:\n---\n{!e!str a: 1, !!str a: 2, !<tag:yaml.org,2002:str> a: 3}\n",
    "%TAG !e! !f\n---\n[!e!oo a, !foo a, !<!foo> a]\n",
    "{!x a: 1, !<!x> a: 2, ! a: 3, a: 4, 'a': 5, \"a\": 6}\n",
    "? !!int 1\n: a\n? !!str 1\n: b\n? 1\n: c\n? '1'\n: d\n",
    "[!!str a, !!str a, !<tag:yaml.org,2002:str> a, !!str 'a', a]\n",
    "{? [!!str a] : 1, ? [!<tag:yaml.org,2002:str> a] : 2}\n",
    "{!!map {a: b}: 1, !!map {a: b}: 2, {a: b}: 3}\n",
    "%TAG !e! tag:e,\n---\n{!e!a%21 x: 1, !<tag:e,a!> x: 2}\n",
    "{!!null ~: 1, ~: 2, !!null null: 3}\n",
];
pub fn eval_deferred(idx: usize, acc: &mut Acc) {
    acc.evals += 1;
    let s = DEFERRED_DOCS[idx];
    let mut loaded = 0;
    if let Some(d) = l_yaml::load_deferred(s) {
        loaded += 1;
        l_yaml::run(&d, s, "Yaml(deferred)", acc);
    }
    if let Some(d) = l_owned::load_deferred(s) {
        loaded += 1;
        l_owned::run(&d, s, "Owned(deferred)", acc);
    }
    if let Some(d) = l_marked::load_deferred(s) {
        loaded += 1;
        l_marked::run(&d, s, "Marked(deferred)", acc);
    }
    if let Some(d) = l_marked_owned::load_deferred(s) {
        loaded += 1;
        l_marked_owned::run(&d, s, "MarkedOwned(deferred)", acc);
    }
    if loaded != 4 {
        acc.machinery_errors.push(format!("deferred document #{idx} loads for {loaded} of 4 node types"));
    }
    acc.class(h64(&("deferred", idx)));
}

macro_rules! lookups {
    ($m:ident, $ty:ty, $canon:path, $strnode:expr, $intnode:expr, ($($data:tt)*)) => {
        mod $m {
            use super::*;
            /// Checks every mapping / sequence below `n`.
            pub fn check_node<'a>(n: &$ty, s: &str, nt: &str, acc: &mut Acc) {
                let c = $canon(n);
                match &c {
                    Canon::Map(pairs) => {
                        acc.count("mappings", 1);
                        for p in probes_for(pairs) {
                            acc.count("lookups", 1);
                            let refv: Option<Canon> = pairs.iter().find(|(k, _)| matches!(k, Canon::Str(x) if *x == p)).map(|(_, v)| v.clone());
                            let g1 = n$($data)*.as_mapping_get(&p).map($canon);
                            let g2 = n$($data)*.contains_mapping_key(&p);
                            let g3 = catch_unwind(AssertUnwindSafe(|| $canon(&n$($data)*[p.as_str()]))).ok();
                            let mut cl = n.clone();
                            let g4 = cl$($data)*.as_mapping_get_mut(&p).map(|x| $canon(&*x));
                            let needle: $ty = $strnode(p.clone());
                            let g5 = n$($data)*.as_mapping().and_then(|m| m.get(&needle)).map($canon);
                            // mutable indexing (IndexMut<&str>) panics / finds like the shared one
                            let g6 = catch_unwind(AssertUnwindSafe(|| { let mut c2 = n.clone(); let r: &mut _ = &mut c2$($data)*[p.as_str()]; $canon(&*r) })).ok();
                            // the map's own hasher must agree with itself for equal keys
                            if g1 != refv || g2 != refv.is_some() || g3 != refv || g4 != refv || g5 != refv || g6 != refv {
                                let which = [("as_mapping_get", g1 == refv), ("contains_mapping_key", g2 == refv.is_some()), ("index", g3 == refv), ("as_mapping_get_mut", g4 == refv), ("explicit-node-get", g5 == refv), ("index_mut", g6 == refv)].iter().filter(|x| !x.1).map(|x| x.0).collect::<Vec<_>>().join("+");
                                let mut case = str_case(s);
                                case["probe"] = json!(p);
                                case["node_type"] = json!(nt);
                                acc.violation(Violation { key: format!("lookup-disagrees nt={nt} which={which} ref={}", if refv.is_some() { "present" } else { "absent" }), expected: format!("all five lookups = reference scan {refv:?}"), observed: format!("get={g1:?} contains={g2} index={g3:?} get_mut={g4:?} explicit={g5:?} index_mut={g6:?}"), case, size: s.len() });
                            }
                        }
                        // integer indexing of mappings
                        let mut idxs = vec![0usize, 1, pairs.len(), usize::MAX, u32::MAX as usize, u32::MAX as usize + 1, i64::MAX as usize];
                        for (k, _) in pairs {
                            if let Canon::Int(i) = k {
                                if let Ok(u) = usize::try_from(*i) {
                                    idxs.push(u);
                                }
                            }
                        }
                        idxs.sort();
                        idxs.dedup();
                        for i in idxs {
                            let refv: Option<Canon> = i64::try_from(i).ok().and_then(|ii| pairs.iter().find(|(k, _)| *k == Canon::Int(ii)).map(|(_, v)| v.clone()));
                            let g1 = catch_unwind(AssertUnwindSafe(|| $canon(&n$($data)*[i]))).ok();
                            let g2 = i64::try_from(i).ok().and_then(|ii| { let needle: $ty = $intnode(ii); n$($data)*.as_mapping().and_then(|m| m.get(&needle)).map($canon) });
                            let g3 = catch_unwind(AssertUnwindSafe(|| { let mut c2 = n.clone(); let r: &mut _ = &mut c2$($data)*[i]; $canon(&*r) })).ok();
                            if g1 != refv || g2 != refv || g3 != refv {
                                let mut case = str_case(s);
                                case["index"] = json!(i.to_string());
                                case["node_type"] = json!(nt);
                                acc.violation(Violation { key: format!("int-index-mapping nt={nt}"), expected: format!("{refv:?}"), observed: format!("index={g1:?} get={g2:?} index_mut={g3:?}"), case, size: s.len() });
                            }
                        }
                    }
                    Canon::Seq(items) => {
                        for i in [0usize, 1, items.len(), usize::MAX] {
                            let refv = items.get(i).cloned();
                            let g1 = catch_unwind(AssertUnwindSafe(|| $canon(&n$($data)*[i]))).ok();
                            let g2 = n$($data)*.as_sequence_get(i).map($canon);
                            let g3 = catch_unwind(AssertUnwindSafe(|| { let mut c2 = n.clone(); let r: &mut _ = &mut c2$($data)*[i]; $canon(&*r) })).ok();
                            let g4 = { let mut c2 = n.clone(); let r = c2$($data)*.as_sequence_get_mut(i).map(|x| $canon(&*x)); r };
                            if g1 != refv || g2 != refv || g3 != refv || g4 != refv {
                                let mut case = str_case(s);
                                case["index"] = json!(i.to_string());
                                case["node_type"] = json!(nt);
                                acc.violation(Violation { key: format!("int-index-sequence nt={nt}"), expected: format!("{refv:?}"), observed: format!("index={g1:?} as_sequence_get={g2:?} index_mut={g3:?} as_sequence_get_mut={g4:?}"), case, size: s.len() });
                            }
                        }
                    }
                    _ => {
                        // not a collection: string lookups report absence
                        if n$($data)*.as_mapping_get("a").is_some() || n$($data)*.contains_mapping_key("a") {
                            acc.violation(Violation { key: format!("lookup-on-non-mapping nt={nt}"), expected: "absent".into(), observed: "present".into(), case: str_case(s), size: s.len() });
                        }
                    }
                }
            }
            pub fn load_deferred<'a>(s: &'a str) -> Option<Vec<$ty>> {
                let mut p = saphyr_parser::Parser::new_from_str(s);
                let mut l: saphyr::YamlLoader<$ty> = saphyr::YamlLoader::default();
                l.early_parse(false);
                p.load(&mut l, true).ok()?;
                Some(l.into_documents())
            }
            /// A mapping with `n` keys `key_of(i) -> i`: every key and `absent` more probes of the same
            /// family are looked up in the five ways; the reference is the construction itself.
            pub fn check_big<'a>(m: &$ty, fam: usize, n: usize, absent: usize, nt: &str, acc: &mut Acc) {
                let mut bad = 0u64;
                let mut first: Option<String> = None;
                for i in 0..n + absent {
                    let p = big_key(fam, i);
                    acc.count("lookups", 1);
                    let refv: Option<Canon> = if i < n { Some(Canon::Int(i as i64)) } else { None };
                    let g1 = m$($data)*.as_mapping_get(&p).map($canon);
                    let g2 = m$($data)*.contains_mapping_key(&p);
                    let g3 = if refv.is_some() || g2 { catch_unwind(AssertUnwindSafe(|| $canon(&m$($data)*[p.as_str()]))).ok() } else { None };
                    let needle: $ty = $strnode(p.clone());
                    let g5 = m$($data)*.as_mapping().and_then(|mm| mm.get(&needle)).map($canon);
                    if g1 != refv || g2 != refv.is_some() || g3 != refv || g5 != refv {
                        bad += 1;
                        if first.is_none() {
                            first = Some(format!("probe {p:?}: reference {refv:?} get={g1:?} contains={g2} index={g3:?} explicit={g5:?}"));
                        }
                    }
                }
                if bad > 0 {
                    acc.violation(Violation { key: format!("big-mapping-lookup nt={nt} family={}", BIG_FAMILIES[fam]), expected: "every lookup agrees with the construction".into(), observed: format!("{bad} of {} probes disagree; first: {}", n + absent, first.unwrap_or_default()), case: json!({"kind": "big", "family": fam, "keys": n, "absent": absent}), size: n });
                }
            }
            pub fn collect<'x, 'a>(n: &'x $ty, out: &mut Vec<&'x $ty>) {
                out.push(n);
                if let Some(v) = n$($data)*.as_sequence() {
                    for c in v.iter() {
                        collect(c, out);
                    }
                }
                if let Some(m) = n$($data)*.as_mapping() {
                    for (k, v) in m.iter() {
                        collect(k, out);
                        collect(v, out);
                    }
                }
            }
            pub fn run<'a>(docs: &[$ty], s: &str, nt: &str, acc: &mut Acc) {
                let mut nodes = vec![];
                for d in docs {
                    collect(d, &mut nodes);
                }
                for n in &nodes {
                    check_node(n, s, nt, acc);
                }
                // a == b  =>  hash(a) == hash(b), for all pairs of nodes of this input
                let hs: Vec<u64> = nodes.iter().map(|n| fnv_hash(*n)).collect();
                for i in 0..nodes.len() {
                    for j in i..nodes.len() {
                        if nodes[i] == nodes[j] && hs[i] != hs[j] {
                            acc.violation(Violation { key: format!("equal-but-hash-differs nt={nt}"), expected: "equal nodes hash equally".into(), observed: format!("{:?} vs {:?}", $canon(nodes[i]), $canon(nodes[j])), case: str_case(s), size: s.len() });
                        }
                    }
                }
                // with the map's own hasher too: every key is found through `get` with a clone of itself
                for n in &nodes {
                    if let Some(m) = n$($data)*.as_mapping() {
                        for (k, v) in m.iter() {
                            let kc = k.clone();
                            let mut h1 = m.hasher().build_hasher();
                            k.hash(&mut h1);
                            let mut h2 = m.hasher().build_hasher();
                            kc.hash(&mut h2);
                            if h1.finish() != h2.finish() || m.get(&kc).map($canon) != Some($canon(v)) {
                                acc.violation(Violation { key: format!("key-clone-not-found nt={nt}"), expected: "a clone of a key finds its entry".into(), observed: format!("key {:?}", $canon(k)), case: str_case(s), size: s.len() });
                            }
                        }
                    }
                }
            }
        }
    };
}
lookups!(l_yaml, Yaml<'a>, canon_yaml, |p: String| Yaml::Value(Scalar::String(p.into())), |i: i64| Yaml::Value(Scalar::Integer(i)), ());
lookups!(l_owned, YamlOwned, canon_owned, |p: String| YamlOwned::Value(ScalarOwned::String(p)), |i: i64| YamlOwned::Value(ScalarOwned::Integer(i)), ());
lookups!(l_marked, MarkedYaml<'a>, canon_marked, |p: String| MarkedYaml::from(YamlData::Value(Scalar::String(p.into()))), |i: i64| MarkedYaml::from(YamlData::Value(Scalar::Integer(i))), (.data));
lookups!(l_marked_owned, MarkedYamlOwned, canon_marked_owned, |p: String| MarkedYamlOwned::from(YamlDataOwned::Value(ScalarOwned::String(p))), |i: i64| MarkedYamlOwned::from(YamlDataOwned::Value(ScalarOwned::Integer(i))), (.data));

pub fn eval_str(s: &str, acc: &mut Acc) {
    acc.evals += 1;
    let Ok(Ok(docs)) = catch_unwind(AssertUnwindSafe(|| Yaml::load_from_str(s))) else { return };
    let canon: Vec<Canon> = docs.iter().map(canon_yaml).collect();
    fn has_map(c: &Canon) -> bool {
        match c {
            Canon::Map(p) => !p.is_empty() || true,
            Canon::Seq(v) => v.iter().any(has_map),
            _ => false,
        }
    }
    if !canon.iter().any(|c| has_map(c) || matches!(c, Canon::Seq(_))) {
        acc.count("skipped_no_collection", 1);
        return;
    }
    l_yaml::run(&docs, s, "Yaml", acc);
    if let Ok(Ok(d)) = catch_unwind(AssertUnwindSafe(|| YamlOwned::load_from_str(s))) {
        l_owned::run(&d, s, "Owned", acc);
    }
    if let Ok(Ok(d)) = catch_unwind(AssertUnwindSafe(|| MarkedYaml::load_from_str(s))) {
        l_marked::run(&d, s, "Marked", acc);
    }
    if let Ok(Ok(d)) = catch_unwind(AssertUnwindSafe(|| MarkedYamlOwned::load_from_str(s))) {
        l_marked_owned::run(&d, s, "MarkedOwned", acc);
    }
    // borrowed vs owned twins: a tree rebuilt with owned strings equals and hashes like the original
    fn to_owned_strings<'a>(y: &Yaml<'a>) -> Yaml<'static> {
        match y {
            Yaml::Value(Scalar::String(s)) => Yaml::Value(Scalar::String(std::borrow::Cow::Owned(s.to_string()))),
            Yaml::Value(Scalar::Null) => Yaml::Value(Scalar::Null),
            Yaml::Value(Scalar::Boolean(b)) => Yaml::Value(Scalar::Boolean(*b)),
            Yaml::Value(Scalar::Integer(b)) => Yaml::Value(Scalar::Integer(*b)),
            Yaml::Value(Scalar::FloatingPoint(b)) => Yaml::Value(Scalar::FloatingPoint(*b)),
            Yaml::Representation(v, st, t) => Yaml::Representation(std::borrow::Cow::Owned(v.to_string()), *st, t.clone()),
            Yaml::Sequence(v) => Yaml::Sequence(v.iter().map(to_owned_strings).collect()),
            Yaml::Mapping(m) => Yaml::Mapping(m.iter().map(|(k, v)| (to_owned_strings(k), to_owned_strings(v))).collect()),
            Yaml::Alias(a) => Yaml::Alias(*a),
            Yaml::BadValue => Yaml::BadValue,
        }
    }
    // borrowed twin: leak-free borrowed copies are built from string slices of the owned twin
    for d in &docs {
        let o = to_owned_strings(d);
        if *d != o || fnv_hash(d) != fnv_hash(&o) {
            acc.violation(Violation { key: "borrowed-vs-owned-twin".into(), expected: "equal and equally hashed".into(), observed: format!("eq={} hash_eq={}", *d == o, fnv_hash(d) == fnv_hash(&o)), case: str_case(s), size: s.len() });
        }
    }
    let cls = h64(&format!("{canon:?}").chars().map(|c| if c.is_ascii_digit() { '9' } else { c }).collect::<String>());
    if acc.class(cls) {
        acc.sample(json!({"input": s, "loaded": format!("{canon:?}")}));
    }
}

/// Constructed mappings with keys the loader cannot produce from the string alphabets.
fn constructed() -> Vec<Yaml<'static>> {
    use ordered_float::OrderedFloat;
    use saphyr_parser::ScalarStyle;
    let keys: Vec<Yaml<'static>> = vec![
        Yaml::Value(Scalar::String("a".into())),
        Yaml::Value(Scalar::String(std::borrow::Cow::Owned("a".to_string()))),
        Yaml::Value(Scalar::String("1".into())),
        Yaml::Value(Scalar::Integer(1)),
        Yaml::Value(Scalar::Integer(0)),
        Yaml::Value(Scalar::Integer(4294967296)),
        Yaml::Value(Scalar::Integer(i64::MAX)),
        Yaml::Value(Scalar::Integer(-1)),
        Yaml::Value(Scalar::FloatingPoint(OrderedFloat(1.0))),
        Yaml::Value(Scalar::FloatingPoint(OrderedFloat(f64::NAN))),
        Yaml::Value(Scalar::FloatingPoint(OrderedFloat(-0.0))),
        Yaml::Value(Scalar::FloatingPoint(OrderedFloat(0.0))),
        Yaml::Value(Scalar::FloatingPoint(OrderedFloat(f64::from_bits(0x7ff8_0000_0000_0001)))),
        Yaml::Value(Scalar::FloatingPoint(OrderedFloat(-f64::NAN))),
        Yaml::Value(Scalar::String("k".repeat(1025).into())),
        Yaml::Value(Scalar::String("é".repeat(600).into())),
        Yaml::Value(Scalar::String("k".repeat(5000).into())),
        Yaml::Value(Scalar::Null),
        Yaml::Value(Scalar::Boolean(true)),
        Yaml::Value(Scalar::String("true".into())),
        Yaml::Value(Scalar::String("~".into())),
        Yaml::Value(Scalar::String("".into())),
        Yaml::Representation("a".into(), ScalarStyle::Plain, None),
        Yaml::Representation("a".into(), ScalarStyle::DoubleQuoted, None),
        Yaml::Representation("a".into(), ScalarStyle::Plain, Some(saphyr_parser::Tag { handle: "tag:yaml.org,2002:".into(), suffix: "str".into() })),
        Yaml::Representation("a".into(), ScalarStyle::Plain, Some(saphyr_parser::Tag { handle: "".into(), suffix: "tag:yaml.org,2002:str".into() })),
        Yaml::Representation("a".into(), ScalarStyle::Plain, Some(saphyr_parser::Tag { handle: "tag:yaml.org,2002:s".into(), suffix: "tr".into() })),
        Yaml::Representation("a".into(), ScalarStyle::Plain, Some(saphyr_parser::Tag { handle: "!".into(), suffix: "foo".into() })),
        Yaml::Representation("a".into(), ScalarStyle::Plain, Some(saphyr_parser::Tag { handle: "".into(), suffix: "!foo".into() })),
        Yaml::BadValue,
        Yaml::Alias(1),
        Yaml::Sequence(vec![Yaml::Value(Scalar::String("a".into()))]),
        Yaml::Sequence(vec![]),
        Yaml::Mapping(Default::default()),
    ];
    let mut out = vec![];
    // single-key mappings first (their key nodes form the scalar pool compared pairwise below)
    for k in &keys {
        let mut m = saphyr::Mapping::new();
        m.insert(k.clone(), Yaml::Value(Scalar::Integer(10)));
        out.push(Yaml::Mapping(m));
    }
    for i in 0..keys.len() {
        for j in 0..keys.len() {
            let mut m = saphyr::Mapping::new();
            // the value depends on the key, not on the position: (i, j) and (j, i) hold the same
            // pairs in a different order
            m.insert(keys[i].clone(), Yaml::Value(Scalar::Integer(100 + i as i64)));
            m.insert(keys[j].clone(), Yaml::Value(Scalar::Integer(100 + j as i64)));
            out.push(Yaml::Mapping(m));
        }
    }
    out
}

fn eval_constructed(idx: usize, all: &[Yaml<'static>], acc: &mut Acc) {
    acc.evals += 1;
    let y = &all[idx];
    let desc = format!("constructed#{idx}: {:?}", canon_yaml(y));
    l_yaml::run(std::slice::from_ref(y), &desc, "Yaml(constructed)", acc);
    // pairwise eq => hash between the KEYS of the single-key mappings (0.0 / -0.0, NaN payloads,
    // borrowed / owned strings ...), with the fixed-key hasher and with a LinkedHashMap's own hasher
    if let Yaml::Mapping(m) = y {
        if m.len() == 1 {
            let k1 = m.keys().next().unwrap();
            for other in all.iter() {
                if let Yaml::Mapping(m2) = other {
                    if m2.len() == 1 {
                        let k2 = m2.keys().next().unwrap();
                        if k1 == k2 {
                            let mut h1 = m.hasher().build_hasher();
                            k1.hash(&mut h1);
                            let mut h2 = m.hasher().build_hasher();
                            k2.hash(&mut h2);
                            if fnv_hash(k1) != fnv_hash(k2) || h1.finish() != h2.finish() || m.get(k2).is_none() {
                                acc.violation(Violation { key: "equal-keys-hash-differently nt=Yaml(constructed)".into(), expected: "equal keys hash equally and find each other's entries".into(), observed: format!("{:?} vs {:?}", canon_yaml(k1), canon_yaml(k2)), case: json!({"kind": "constructed", "index": idx}), size: 1 });
                            }
                        }
                    }
                }
            }
        }
    }
    for other in all.iter() {
        if y == other && fnv_hash(y) != fnv_hash(other) {
            acc.violation(Violation { key: "equal-but-hash-differs nt=Yaml(constructed)".into(), expected: "equal nodes hash equally".into(), observed: format!("{:?} vs {:?}", canon_yaml(y), canon_yaml(other)), case: json!({"kind": "constructed", "index": idx}), size: 1 });
        }
    }
}

pub fn replay(case: &Value) -> Result<Acc, String> {
    let mut acc = Acc::default();
    if case["kind"] == "big" {
        eval_big(case["family"].as_u64().unwrap_or(0) as usize, case["keys"].as_u64().unwrap_or(1) as usize, case["absent"].as_u64().unwrap_or(0) as usize, &mut acc);
    } else if case["kind"] == "constructed" {
        let all = constructed();
        eval_constructed(case["index"].as_u64().unwrap_or(0) as usize, &all, &mut acc);
    } else {
        let t = case_text(case)?;
        if let Some(i) = t.strip_prefix("constructed#").and_then(|r| r.split(':').next()).and_then(|x| x.parse::<usize>().ok()) {
            let all = constructed();
            eval_constructed(i, &all, &mut acc);
        } else {
            eval_str(&t, &mut acc);
        }
    }
    Ok(acc)
}

pub fn check(tier: Tier) -> i32 {
    let mut rep = Report::new("C20", tier, "model_checking");
    rep.rule = "every mapping and sequence (at any depth) of the documents loaded from every string up to length N over the key alphabet {a 1 ~ : space , { } [ ] \" -} and 400 constructed mappings (Representation, BadValue, alias, float, NaN, collection and borrowed/owned string keys), for each of the 4 node types: for every probe string drawn from the keys, the text of non-string keys, type-like variants and absent strings, the six lookups (as_mapping_get, contains_mapping_key, [k] and mutable [k] with the panic caught, as_mapping_get_mut, get with an explicitly built string node) are compared with a linear reference scan over the pairs; integer indexing likewise; a == b => hash(a) == hash(b) for all node pairs of an input (fixed-key hasher and the map's own hasher). Additionally mappings of 10^3 .. 10^5 similar keys in four key families (every key and 25% absent probes of the same family, against the construction), and ten documents loaded without early resolution whose keys spell one tag through different handle/suffix splits. Non-trivial: the input loads to a collection; distinct: digit-collapsed canonical documents.".into();
    rep.assumptions = vec!["'a resolved string equal to k' = a key node that is Value(String) with that content".into()];
    let budget = Budget::new(wall_cap(tier));
    let n = match tier {
        Tier::Quick => 6,
        Tier::Thorough => 7,
    };
    rep.mandatory_scopes = 2;
    let sp = StrSpace::chars(&format!("key^{n}"), SIGMA_KEY, n);
    let (acc, done) = sweep_strings(&sp, &budget, |s, acc| eval_str(s, acc));
    let c = acc.evals;
    rep.acc.merge(acc);
    rep.scope(&sp.name, c, done);
    for (sz, d) in if tier == Tier::Quick { vec![(4usize, 1usize)] } else { vec![(4, 2), (5, 1)] } {
        let (acc, done) = crate::props::sweep::sweep_gen(sz, d, &budget, |s, acc| eval_str(s, acc));
        let c = acc.evals;
        rep.acc.merge(acc);
        rep.scope(&format!("gen({sz},{d})"), c, done);
    }
    let all = constructed();
    let (acc, done) = par_blocks(all.len() as u64, &budget, |b, acc| eval_constructed(b as usize, &all, acc));
    let c2 = acc.evals;
    rep.acc.merge(acc);
    rep.scope("constructed mappings", c2, done == all.len() as u64);
    // large mappings of similar keys (hash-table collisions inside the string-keyed lookups)
    let sizes: &[usize] = if tier == Tier::Quick { &[1000, 20_000] } else { &[1000, 20_000, 100_000] };
    let jobs: Vec<(usize, usize)> = (0..BIG_FAMILIES.len()).flat_map(|f| sizes.iter().map(move |&n| (f, n))).collect();
    let (acc, done) = par_blocks(jobs.len() as u64, &budget, |b, acc| {
        let (f, n) = jobs[b as usize];
        eval_big(f, n, n / 4, acc);
    });
    let c3 = acc.evals;
    rep.acc.merge(acc);
    rep.scope(&format!("large mappings: {} key families x sizes {sizes:?}, every key + 25% absent probes, 4 node types", BIG_FAMILIES.len()), c3, done == jobs.len() as u64);
    // unresolved (deferred) documents with tagged keys
    let (acc, done) = par_blocks(DEFERRED_DOCS.len() as u64, &budget, |b, acc| eval_deferred(b as usize, acc));
    let c4 = acc.evals;
    rep.acc.merge(acc);
    rep.scope("deferred (unresolved) documents with tagged keys x 4 node types", c4, done == DEFERRED_DOCS.len() as u64);
    let lookups = rep.acc.counters.get("lookups").copied().unwrap_or(0);
    let maps = rep.acc.counters.get("mappings").copied().unwrap_or(0);
    rep.mc = Some((maps.max(1), lookups.max(1), lookups * 5));
    rep.extra.insert("explanation".into(), json!("states = mappings examined; transitions = (mapping, probe) pairs; traces_validated = lookup calls on the real node types compared with the reference scan"));
    rep.finish()
}
