pub mod sweep;
pub mod c01;
pub mod c02;
pub mod c03;
pub mod c04;
pub mod c05;
pub mod c06;
pub mod c07;
pub mod c08;
pub mod c09;
pub mod c10;
pub mod c11;
pub mod c12;
pub mod c13;
pub mod c14;
pub mod c15;
pub mod c16;
pub mod c17;
pub mod c18;
pub mod c19;
pub mod c20;

use crate::report::{Acc, Tier};
use serde_json::Value;

pub type CheckFn = fn(Tier) -> i32;
pub type ReplayFn = fn(&Value) -> Result<Acc, String>;

pub fn table() -> Vec<(&'static str, CheckFn, ReplayFn)> {
    vec![
        ("C01", c01::check, c01::replay),
        ("C02", c02::check, c02::replay),
        ("C03", c03::check, c03::replay),
        ("C04", c04::check, c04::replay),
        ("C05", c05::check, c05::replay),
        ("C06", c06::check, c06::replay),
        ("C07", c07::check, c07::replay),
        ("C08", c08::check, c08::replay),
        ("C09", c09::check, c09::replay),
        ("C10", c10::check, c10::replay),
        ("C11", c11::check, c11::replay),
        ("C12", c12::check, c12::replay),
        ("C13", c13::check, c13::replay),
        ("C14", c14::check, c14::replay),
        ("C15", c15::check, c15::replay),
        ("C16", c16::check, c16::replay),
        ("C17", c17::check, c17::replay),
        ("C18", c18::check, c18::replay),
        ("C19", c19::check, c19::replay),
        ("C20", c20::check, c20::replay),
    ]
}

pub fn worker(prop: &str, grid: &str, from: u64, to: u64) {
    match prop {
        "C11" => c11::worker(grid, from, to),
        "C18" => c18::worker(grid, from, to),
        _ => {
            eprintln!("no worker for {prop}");
            std::process::exit(3)
        }
    }
}
