//! C01, C02, C10, C12, C14: properties decided by exhaustive string-space sweeps (engine E1).

use crate::engine::{par_blocks, sweep_strings, Budget, StrSpace};
use crate::models::grammar::check_sentence;
use crate::models::pos::pos_table;
use crate::report::{esc, h64, Acc, Report, Tier, Violation};
use crate::scopes::{load_suite, s_char, s_dir, s_esc, s_props, s_tok, SIGMA_MIX};
use crate::subject::*;
use saphyr::{LoadableYamlNode, MarkedYaml, MarkedYamlOwned, Yaml, YamlOwned};
use saphyr_parser::{Parser, ScalarStyle};
use serde_json::{json, Value};
use std::panic::{catch_unwind, AssertUnwindSafe};

pub fn str_case(s: &str) -> Value {
    if s.len() > 16384 {
        // generated long inputs are recorded by generator and size (see run_long); building a
        // megabyte of JSON for each of thousands of violations of one long input is what would hang
        return json!({"kind": "string-truncated", "len": s.len(), "text_prefix": s.chars().take(200).collect::<String>()});
    }
    json!({"kind": "string", "text": s, "hex": s.bytes().map(|b| format!("{b:02x}")).collect::<String>()})
}
pub fn case_text(case: &Value) -> Result<String, String> {
    if let Some(h) = case.get("hex").and_then(|h| h.as_str()) {
        let bytes: Result<Vec<u8>, _> = (0..h.len() / 2).map(|i| u8::from_str_radix(&h[2 * i..2 * i + 2], 16)).collect();
        let bytes = bytes.map_err(|e| format!("bad hex: {e}"))?;
        return String::from_utf8(bytes).map_err(|e| format!("bad utf8 in hex: {e}"));
    }
    case.get("text").and_then(|t| t.as_str()).map(|s| s.to_string()).ok_or_else(|| "case has neither hex nor text".into())
}

fn viol(key: String, s: &str, expected: &str, observed: String) -> Violation {
    Violation { key, expected: expected.into(), observed, case: str_case(s), size: s.len() }
}

/// Which scopes a sweep covers.
pub struct SweepPlan {
    pub spaces: Vec<StrSpace>,
    pub suite: bool,
    pub suite_neighbourhood: bool,
    /// `S-gen(s, d)`: texts rendered by the C03 model from all trees of <= s nodes with <= d deviations
    pub gen: Vec<(usize, usize)>,
}

pub fn plan(tier: Tier, n_quick: usize, n_thorough: usize, k_quick: usize, k_thorough: usize) -> SweepPlan {
    match tier {
        Tier::Quick => {
            let mut spaces = s_char(n_quick);
            spaces.push(s_tok(k_quick));
            spaces.push(s_props(5));
            spaces.push(s_dir(4));
            spaces.push(s_esc(4));
            SweepPlan { spaces, suite: true, suite_neighbourhood: false, gen: vec![(3, 2), (4, 1)] }
        }
        Tier::Thorough => {
            let mut spaces = s_char(n_thorough);
            spaces.push(s_tok(k_thorough));
            spaces.push(s_props(6));
            spaces.push(s_dir(5));
            spaces.push(s_esc(5));
            SweepPlan { spaces, suite: true, suite_neighbourhood: true, gen: vec![(4, 2), (5, 1)] }
        }
    }
}

/// Runs `f` over every scope of the plan, recording scopes in the report.
pub fn run_plan<F>(rep: &mut Report, plan: &SweepPlan, budget: &Budget, f: F)
where
    F: Fn(&str, &mut Acc) + Sync,
{
    if plan.suite {
        match load_suite() {
            Err(e) => rep.acc.machinery_errors.push(format!("suite corpus: {e}")),
            Ok(cases) => {
                let (acc, done) = par_blocks(cases.len() as u64, budget, |b, acc| f(&cases[b as usize].yaml, acc));
                let n = acc.evals;
                rep.acc.merge(acc);
                rep.scope("suite", n, done == cases.len() as u64);
                if plan.suite_neighbourhood {
                    let syms: Vec<char> = SIGMA_MIX.chars().collect();
                    let (acc, done) = par_blocks(cases.len() as u64, budget, |b, acc| {
                        let chars: Vec<char> = cases[b as usize].yaml.chars().collect();
                        if chars.len() > 400 {
                            return;
                        }
                        let mut s = String::new();
                        for i in 0..chars.len() {
                            s.clear();
                            s.extend(chars[..i].iter());
                            s.extend(chars[i + 1..].iter());
                            f(&s, acc);
                        }
                        for i in 0..=chars.len() {
                            for &c in &syms {
                                s.clear();
                                s.extend(chars[..i].iter());
                                s.push(c);
                                s.extend(chars[i..].iter());
                                f(&s, acc);
                            }
                        }
                    });
                    let n = acc.evals;
                    rep.acc.merge(acc);
                    rep.scope("suite-1edit", n, done == cases.len() as u64);
                }
            }
        }
    }
    for (sz, d) in &plan.gen {
        let (acc, done) = sweep_gen(*sz, *d, budget, &f);
        let n = acc.evals;
        rep.acc.merge(acc);
        rep.scope(&format!("gen({sz},{d})"), n, done);
    }
    // smallest scopes first: when the wall cap is hit, it is the largest alphabets that stay open
    let mut order: Vec<&StrSpace> = plan.spaces.iter().collect();
    order.sort_by_key(|sp| sp.len());
    for sp in order {
        let (acc, done) = sweep_strings(sp, budget, &f);
        let n = acc.evals;
        rep.acc.merge(acc);
        rep.scope(&sp.name, n, done);
    }
}

/// Runs `f` over every text the C03 renderer produces from all trees of <= `size` nodes (one
/// document, and two documents for the smallest trees) with at most `dev` layout deviations.
pub fn sweep_gen<F>(size: usize, dev: usize, budget: &Budget, f: F) -> (Acc, bool)
where
    F: Fn(&str, &mut Acc) + Sync,
{
    use crate::engine::{explore, Ch};
    use crate::models::render::{all_trees, render};
    let trees = all_trees(size);
    let small = all_trees(1);
    let (acc, done) = par_blocks(trees.len() as u64, budget, |b, acc| {
        let t = &trees[b as usize];
        explore(dev, &mut |ch: &mut Ch| {
            let r = render(std::slice::from_ref(t), ch);
            f(&r.text, acc);
        });
        if t.size() <= 2 {
            for t2 in &small {
                let pair = [t.clone(), t2.clone()];
                explore(dev.min(1), &mut |ch: &mut Ch| {
                    let r = render(&pair, ch);
                    f(&r.text, acc);
                });
            }
        }
    });
    (acc, done == trees.len() as u64)
}

// ---------------------------------------------------------------------------------------------
// C01
// ---------------------------------------------------------------------------------------------

pub const C01_BACKENDS: [Backend; 6] = [Backend::Str, Backend::Buf, Backend::Gen(8, true), Backend::Gen(8, false), Backend::Gen(64, true), Backend::Gen(128, false)];
pub const C01_APIS: [Api; 3] = [Api::Iter, Api::PeekNext, Api::Push];

pub const WORK_CALLS_PER_CHAR: u64 = 64;
pub const WORK_CALLS_CONST: u64 = 256;
pub const WORK_EVENTS_PER_CHAR: u64 = 4;
pub const WORK_EVENTS_CONST: u64 = 8;

fn c01_loader<'a, N: LoadableYamlNode<'a>>(s: &'a str, which: u8) -> Result<bool, String> {
    catch_unwind(AssertUnwindSafe(|| match which {
        0 => N::load_from_str(s).is_ok(),
        1 => N::load_from_iter(s.chars()).is_ok(),
        2 => N::load_from_parser(&mut Parser::new_from_str(s)).is_ok(),
        _ => N::load_from_parser(&mut Parser::new(GenInput::new(s, 8, true))).is_ok(),
    }))
    .map_err(panic_msg)
}

pub fn c01_eval(s: &str, acc: &mut Acc, full: bool) {
    acc.evals += 1;
    let n = s.chars().count() as u64;
    let mut first: Option<Obs> = None;
    // quick tier: long inputs (boundary chunks of a thousand characters) get a reduced configuration set
    let heavy = !full && s.len() > 600;
    for b in C01_BACKENDS {
        for api in C01_APIS {
            if !full && !(api == Api::Iter || b == Backend::Str || b == Backend::Gen(8, true)) {
                continue;
            }
            if heavy && !(matches!(b, Backend::Str | Backend::Buf | Backend::Gen(8, true)) && (api == Api::Iter || b == Backend::Gen(8, true))) {
                continue;
            }
            let is_gen = matches!(b, Backend::Gen(..));
            if is_gen {
                calls_reset();
            }
            match observe(s, b, api) {
                Err(msg) => acc.violation(viol(format!("panic backend={} api={} msg={}", b.name(), api.name(), classify_panic(&msg)), s, "no panic", format!("panic: {msg}"))),
                Ok(o) => {
                    if o.extra_after_end {
                        acc.violation(viol(format!("event-after-streamend backend={} api={}", b.name(), api.name()), s, "None after StreamEnd", "an event or error was returned after StreamEnd".into()));
                    }
                    if o.err.is_none() && !matches!(o.evs.last(), Some((Ev::SE, _))) {
                        acc.violation(viol(format!("ended-without-streamend backend={} api={}", b.name(), api.name()), s, "complete stream or first error", format!("events end with {:?}", o.evs.last())));
                    }
                    let evs = o.evs.len() as u64;
                    acc.maximum("events_minus_3n", evs.saturating_sub(3 * n));
                    if evs > WORK_EVENTS_PER_CHAR * n + WORK_EVENTS_CONST {
                        acc.violation(viol(format!("work-events backend={} api={}", b.name(), api.name()), s, &format!("<= {WORK_EVENTS_PER_CHAR}n+{WORK_EVENTS_CONST} events"), format!("{evs} events for {n} chars")));
                    }
                    if is_gen {
                        let calls = calls_get();
                        acc.maximum("calls_minus_21n", calls.saturating_sub(21 * n));
                        if calls > WORK_CALLS_PER_CHAR * n + WORK_CALLS_CONST {
                            acc.violation(viol(format!("work-calls backend={} api={}", b.name(), api.name()), s, &format!("<= {WORK_CALLS_PER_CHAR}n+{WORK_CALLS_CONST} input operations"), format!("{calls} input operations for {n} chars")));
                        }
                    }
                    if first.is_none() {
                        first = Some(o);
                    }
                }
            }
        }
    }
    // loaders
    let mut ok = None;
    for which in 0..4u8 {
        if !full && which == 1 {
            continue;
        }
        if heavy && which != 0 {
            continue;
        }
        let rs = [c01_loader::<Yaml>(s, which), c01_loader::<YamlOwned>(s, which), c01_loader::<MarkedYaml>(s, which), c01_loader::<MarkedYamlOwned>(s, which)];
        for (i, r) in rs.iter().enumerate() {
            match r {
                Err(msg) => acc.violation(viol(format!("panic loader={} via={} msg={}", ["Yaml", "YamlOwned", "MarkedYaml", "MarkedYamlOwned"][i], which, classify_panic(msg)), s, "no panic", format!("panic: {msg}"))),
                Ok(b) => ok = Some(*b),
            }
        }
    }
    if let Some(o) = first {
        let nontrivial = o.evs.len() > 4 || o.err.is_some();
        if nontrivial {
            let cls = h64(&(o.kinds(), o.err.as_ref().map(|e| e.info.clone()), ok));
            if acc.class(cls) && o.evs.len() > 6 {
                acc.sample(json!({"input": s, "events": o.kinds(), "error": o.err.as_ref().map(|e| e.info.clone())}));
            }
        }
    }
}

pub fn classify_panic(msg: &str) -> String {
    // keep the message shape, drop numbers
    let m: String = msg.chars().map(|c| if c.is_ascii_digit() { '#' } else { c }).collect();
    crate::report::short(&m, 80)
}

// ---------------------------------------------------------------------------------------------
// C02
// ---------------------------------------------------------------------------------------------

pub const C02_BACKENDS: [Backend; 3] = [Backend::Str, Backend::Buf, Backend::Gen(8, true)];

pub fn c02_eval(s: &str, acc: &mut Acc) {
    acc.evals += 1;
    for b in C02_BACKENDS {
        for api in [Api::Iter, Api::Push] {
            let Ok(o) = observe(s, b, api) else { continue }; // panics are C01's business
            let r = check_sentence(o.evs.iter().map(|e| &e.0), o.err.is_none());
            if let Err(m) = r {
                let class: String = m.chars().map(|c| if c.is_ascii_digit() { '#' } else { c }).collect();
                acc.violation(viol(format!("not-a-sentence api={} why={}", api.name(), crate::report::short(&class, 90)), s, "prefix of SS (DS node DE)* SE", format!("backend={} {}: events {}", b.name(), m, o.kinds())));
            }
            if o.extra_after_end {
                acc.violation(viol(format!("event-after-streamend api={}", api.name()), s, "nothing after StreamEnd", "something was returned after StreamEnd".into()));
            }
            if b == Backend::Str && api == Api::Iter {
                let k = o.kinds();
                if k.contains('[') || k.contains('{') {
                    if acc.class(h64(&k)) {
                        acc.sample(json!({"input": s, "events": k}));
                    }
                }
            }
        }
    }
}

// ---------------------------------------------------------------------------------------------
// C10
// ---------------------------------------------------------------------------------------------

pub const C10_BACKENDS: [Backend; 10] = [
    Backend::Str,
    Backend::Buf,
    Backend::Gen(8, true),
    Backend::Gen(8, false),
    Backend::Gen(16, true),
    Backend::Gen(16, false),
    Backend::Gen(64, true),
    Backend::Gen(64, false),
    Backend::Gen(128, true),
    Backend::Gen(128, false),
];

fn first_diff(a: &Obs, b: &Obs) -> String {
    for (i, (x, y)) in a.evs.iter().zip(b.evs.iter()).enumerate() {
        if x != y {
            return format!("event #{i}: {x:?} vs {y:?}");
        }
    }
    if a.evs.len() != b.evs.len() {
        return format!("{} vs {} events", a.evs.len(), b.evs.len());
    }
    format!("error {:?} vs {:?}", a.err, b.err)
}
fn diff_class(a: &Obs, b: &Obs) -> &'static str {
    for (x, y) in a.evs.iter().zip(b.evs.iter()) {
        if x.0 != y.0 {
            return "event";
        }
        if x.1 != y.1 {
            return "span";
        }
    }
    if a.evs.len() != b.evs.len() {
        return "event-count";
    }
    match (&a.err, &b.err) {
        (Some(_), None) | (None, Some(_)) => "success",
        (Some(x), Some(y)) if x.info != y.info => "error-message",
        (Some(_), Some(_)) => "error-position",
        _ => "other",
    }
}

pub fn c10_eval(s: &str, acc: &mut Acc) {
    acc.evals += 1;
    let base = match observe(s, Backend::Str, Api::Iter) {
        Ok(b) => b,
        Err(msg) => {
            // a panic on every back-end is C01's business; a panic on StrInput alone is a difference
            if observe(s, Backend::Buf, Api::Iter).is_ok() {
                acc.violation(viol(format!("panic-only-on backend=str msg={}", classify_panic(&msg)), s, "same observation as BufferedInput", format!("panic: {msg}")));
            }
            return;
        }
    };
    for b in &C10_BACKENDS[1..] {
        match observe(s, *b, Api::Iter) {
            Err(msg) => acc.violation(viol(format!("panic-only-on backend={} msg={}", b.name(), classify_panic(&msg)), s, "same observation as StrInput", format!("panic: {msg}"))),
            Ok(o) => {
                if o != base {
                    acc.violation(viol(format!("backend-diff backend={} what={}", b.name(), diff_class(&base, &o)), s, "same events, spans and error as StrInput", first_diff(&base, &o)));
                }
            }
        }
    }
    if base.evs.len() > 4 || base.err.is_some() {
        let cls = h64(&(base.kinds(), base.err.as_ref().map(|e| e.info.clone())));
        if acc.class(cls) && base.evs.len() > 6 {
            acc.sample(json!({"input": s, "events": base.kinds(), "error": base.err.as_ref().map(|e| e.info.clone())}));
        }
    }
}

// ---------------------------------------------------------------------------------------------
// C12
// ---------------------------------------------------------------------------------------------

fn c12_check_obs(s: &str, chars: &[char], table: &[(usize, usize)], o: &Obs, bname: &str, acc: &mut Acc) {
    let eff_len = chars.iter().position(|&c| c == '\0').unwrap_or(chars.len());
    let mut check_mark = |what: &str, idx: usize, line: usize, col: usize, acc: &mut Acc| {
        if idx > chars.len() {
            acc.violation(viol(format!("position-outside-input what={what}"), s, &format!("index <= {}", chars.len()), format!("backend={bname} index {idx}")));
        } else if idx < eff_len && table[idx] != (line, col) {
            acc.violation(viol(format!("wrong-line-col what={what}"), s, &format!("(line,col) = {:?} at index {idx}", table[idx]), format!("backend={bname} reported ({line},{col})")));
        }
    };
    let mut stack: Vec<usize> = vec![];
    for (e, sp) in &o.evs {
        let k = e.kind();
        check_mark(&format!("{k}-start"), sp.si, sp.sl, sp.sc, acc);
        check_mark(&format!("{k}-end"), sp.ei, sp.el, sp.ec, acc);
        if sp.si > sp.ei {
            acc.violation(viol(format!("span-inverted ev={k}"), s, "start <= end", format!("backend={bname} {e:?} {sp:?}")));
        }
        let child_check = |acc: &mut Acc, stack: &Vec<usize>| {
            if let Some(&p) = stack.last() {
                if sp.si < p {
                    acc.violation(viol(format!("child-before-parent ev={k}"), s, &format!("start >= parent start {p}"), format!("backend={bname} {e:?} {sp:?}")));
                }
            }
        };
        match e {
            Ev::SeqS(..) | Ev::MapS(..) => {
                child_check(acc, &stack);
                stack.push(sp.si);
            }
            Ev::SeqE | Ev::MapE => {
                let st = stack.pop().unwrap_or(0);
                if sp.ei < st {
                    acc.violation(viol(format!("collection-ends-before-start ev={k}"), s, &format!("end >= collection start {st}"), format!("backend={bname} {sp:?}")));
                }
            }
            Ev::Al(_) => child_check(acc, &stack),
            Ev::Sc(v, style, _, _) => {
                child_check(acc, &stack);
                let a = sp.si.min(chars.len());
                let b = sp.ei.min(chars.len()).max(a);
                match style {
                    ScalarStyle::Plain => {
                        if !v.is_empty() && !v.contains('\n') && sp.sl == sp.el {
                            let sub: String = chars[a..b].iter().collect();
                            let synthesized_null = v == "~" && sub != "~";
                            if !synthesized_null && sub != *v {
                                acc.violation(viol("plain-span-not-text".into(), s, &format!("span text == value {v:?}"), format!("backend={bname} span covers {sub:?} {sp:?}")));
                            }
                        }
                    }
                    ScalarStyle::SingleQuoted | ScalarStyle::DoubleQuoted => {
                        let q = if *style == ScalarStyle::SingleQuoted { '\'' } else { '"' };
                        if chars.get(sp.si) != Some(&q) {
                            acc.violation(viol("quoted-span-start".into(), s, "span starts at the opening quote", format!("backend={bname} {sp:?}")));
                        } else {
                            // independent quote matcher
                            let mut i = sp.si + 1;
                            let mut close = None;
                            while i < chars.len() {
                                let c = chars[i];
                                if q == '\'' {
                                    if c == '\'' {
                                        if chars.get(i + 1) == Some(&'\'') {
                                            i += 2;
                                            continue;
                                        }
                                        close = Some(i);
                                        break;
                                    }
                                } else {
                                    if c == '\\' {
                                        i += 2;
                                        continue;
                                    }
                                    if c == '"' {
                                        close = Some(i);
                                        break;
                                    }
                                }
                                i += 1;
                            }
                            match close {
                                Some(ci) if sp.ei > ci => {}
                                _ => acc.violation(viol("quoted-span-end".into(), s, &format!("span contains the closing quote at {close:?}"), format!("backend={bname} {sp:?}"))),
                            }
                        }
                    }
                    _ => {}
                }
            }
            _ => {}
        }
    }
    if let Some(e) = &o.err {
        check_mark("error", e.index, e.line, e.col, acc);
        let want = format!("line {} column {}", e.line, e.col + 1);
        if !e.display.ends_with(&want) {
            acc.violation(viol("error-display".into(), s, &format!("Display ends with {want:?}"), format!("backend={bname} Display = {:?}", e.display)));
        }
    }
}

/// Lock-step walk of a marked tree and the event stream: each node's span is the span of the
/// event that created it.
fn c12_marked(s: &str, o: &Obs, acc: &mut Acc) {
    fn walk(n: &MarkedYaml, evs: &[(Ev, Sp)], i: &mut usize, out: &mut Vec<String>) {
        use saphyr::YamlData;
        if *i >= evs.len() {
            out.push("event stream exhausted".into());
            return;
        }
        let (e, sp) = &evs[*i];
        let nsp = Sp::of(&n.span);
        match (&n.data, e) {
            (YamlData::Sequence(v), Ev::SeqS(..)) => {
                if nsp != *sp {
                    out.push(format!("sequence node span {nsp:?} != event span {sp:?}"));
                }
                *i += 1;
                for c in v {
                    walk(c, evs, i, out);
                }
                *i += 1; // SeqE
            }
            (YamlData::Mapping(m), Ev::MapS(..)) => {
                if nsp != *sp {
                    out.push(format!("mapping node span {nsp:?} != event span {sp:?}"));
                }
                *i += 1;
                // duplicate keys make the tree smaller than the event stream: bail out of the walk
                let mut pairs = 0;
                let mut j = *i;
                let mut depth = 0i32;
                let mut nodes = 0;
                while j < evs.len() {
                    match evs[j].0 {
                        Ev::SeqS(..) | Ev::MapS(..) => {
                            if depth == 0 {
                                nodes += 1;
                            }
                            depth += 1;
                        }
                        Ev::SeqE | Ev::MapE => {
                            if depth == 0 {
                                break;
                            }
                            depth -= 1;
                        }
                        _ => {
                            if depth == 0 {
                                nodes += 1;
                            }
                        }
                    }
                    j += 1;
                }
                pairs += nodes / 2;
                if pairs != m.len() {
                    // duplicate keys collapsed; skip this mapping's interior
                    *i = j + 1;
                    return;
                }
                for (k, v) in m.iter() {
                    walk(k, evs, i, out);
                    walk(v, evs, i, out);
                }
                *i += 1; // MapE
            }
            (_, Ev::Sc(..)) | (_, Ev::Al(_)) => {
                if matches!(e, Ev::Al(_)) {
                    // substituted node: carries the alias event's span (if the anchored node is a collection its children keep theirs)
                }
                if nsp != *sp {
                    out.push(format!("node span {nsp:?} != creating event span {sp:?} ({e:?})"));
                }
                *i += 1;
            }
            (_, _) => {
                // tree/event shape mismatch is C07's business, not a position question
                out.push("SHAPE".into());
                *i = evs.len();
            }
        }
    }
    if o.err.is_some() {
        return;
    }
    let Ok(Ok(docs)) = catch_unwind(AssertUnwindSafe(|| MarkedYaml::load_from_str(s))) else { return };
    let Ok(Ok(docs_o)) = catch_unwind(AssertUnwindSafe(|| MarkedYamlOwned::load_from_str(s))) else { return };
    // events of the documents
    let mut i = 0usize;
    let mut problems = vec![];
    let mut di = 0;
    while i < o.evs.len() {
        match o.evs[i].0 {
            Ev::DS(_) => {
                i += 1;
                if di < docs.len() {
                    walk(&docs[di], &o.evs, &mut i, &mut problems);
                    di += 1;
                }
            }
            _ => i += 1,
        }
    }
    if problems.iter().any(|p| p == "SHAPE" || p == "event stream exhausted") {
        acc.count("marked_walk_skipped_shape_mismatch", 1);
        problems.clear();
    }
    for p in problems.iter().take(1) {
        acc.violation(viol("marked-node-span".into(), s, "node span == span of the creating event", p.clone()));
    }
    // deferred loading followed by resolution keeps every node's span
    {
        use saphyr::{AnnotatedNode, AnnotatedNodeOwned, YamlLoader};
        let d1 = catch_unwind(AssertUnwindSafe(|| {
            let mut p = Parser::new_from_iter(s.chars());
            let mut l: YamlLoader<MarkedYaml> = YamlLoader::default();
            l.early_parse(false);
            p.load(&mut l, true).ok()?;
            let mut docs = l.into_documents();
            for d in docs.iter_mut() {
                AnnotatedNode::parse_representation_recursive(d);
            }
            Some(docs)
        }));
        let d2 = catch_unwind(AssertUnwindSafe(|| {
            let mut p = Parser::new_from_iter(s.chars());
            let mut l: YamlLoader<MarkedYamlOwned> = YamlLoader::default();
            l.early_parse(false);
            p.load(&mut l, true).ok()?;
            let mut docs = l.into_documents();
            for d in docs.iter_mut() {
                AnnotatedNodeOwned::parse_representation_recursive(d);
            }
            Some(docs)
        }));
        fn sp(n: &MarkedYaml, out: &mut Vec<Sp>) {
            use saphyr::YamlData;
            out.push(Sp::of(&n.span));
            match &n.data {
                YamlData::Sequence(v) => v.iter().for_each(|c| sp(c, out)),
                YamlData::Mapping(m) => m.iter().for_each(|(k, v)| {
                    sp(k, out);
                    sp(v, out)
                }),
                _ => {}
            }
        }
        fn spo(n: &MarkedYamlOwned, out: &mut Vec<Sp>) {
            use saphyr::YamlDataOwned;
            out.push(Sp::of(&n.span));
            match &n.data {
                YamlDataOwned::Sequence(v) => v.iter().for_each(|c| spo(c, out)),
                YamlDataOwned::Mapping(m) => m.iter().for_each(|(k, v)| {
                    spo(k, out);
                    spo(v, out)
                }),
                _ => {}
            }
        }
        let mut eager = vec![];
        docs.iter().for_each(|d| sp(d, &mut eager));
        if let Ok(Some(dd)) = d1 {
            let mut v = vec![];
            dd.iter().for_each(|d| sp(d, &mut v));
            // resolution may merge keys that become equal; only compare when the shapes agree
            if v.len() == eager.len() && v != eager {
                acc.violation(viol("marked-span-lost-by-deferred-resolution nt=MarkedYaml".into(), s, "same spans as the eager load", format!("{v:?} vs {eager:?}")));
            }
        }
        if let Ok(Some(dd)) = d2 {
            let mut v = vec![];
            dd.iter().for_each(|d| spo(d, &mut v));
            if v.len() == eager.len() && v != eager {
                acc.violation(viol("marked-span-lost-by-deferred-resolution nt=MarkedYamlOwned".into(), s, "same spans as the eager load", format!("{v:?} vs {eager:?}")));
            }
        }
    }
    // owned twin: spans must equal those of the borrowed tree
    fn spans(n: &MarkedYaml, out: &mut Vec<Sp>) {
        use saphyr::YamlData;
        out.push(Sp::of(&n.span));
        match &n.data {
            YamlData::Sequence(v) => v.iter().for_each(|c| spans(c, out)),
            YamlData::Mapping(m) => m.iter().for_each(|(k, v)| {
                spans(k, out);
                spans(v, out)
            }),
            _ => {}
        }
    }
    fn spans_o(n: &MarkedYamlOwned, out: &mut Vec<Sp>) {
        use saphyr::YamlDataOwned;
        out.push(Sp::of(&n.span));
        match &n.data {
            YamlDataOwned::Sequence(v) => v.iter().for_each(|c| spans_o(c, out)),
            YamlDataOwned::Mapping(m) => m.iter().for_each(|(k, v)| {
                spans_o(k, out);
                spans_o(v, out)
            }),
            _ => {}
        }
    }
    let mut a = vec![];
    let mut b = vec![];
    docs.iter().for_each(|d| spans(d, &mut a));
    docs_o.iter().for_each(|d| spans_o(d, &mut b));
    if a != b {
        acc.violation(viol("marked-owned-span-differs".into(), s, "MarkedYamlOwned spans == MarkedYaml spans", format!("{a:?} vs {b:?}")));
    }
}

pub fn c12_eval(s: &str, acc: &mut Acc) {
    acc.evals += 1;
    let chars: Vec<char> = s.chars().collect();
    let table = pos_table(&chars);
    let mut base = None;
    for b in [Backend::Str, Backend::Buf] {
        let Ok(o) = observe(s, b, Api::Iter) else { continue };
        c12_check_obs(s, &chars, &table, &o, &b.name(), acc);
        if b == Backend::Buf {
            // the loaders read through BufferedInput
            c12_marked(s, &o, acc);
        }
        if base.is_none() {
            base = Some(o);
        }
    }
    // the printed form of the error as the loading interfaces hand it out: load_from_str (a
    // ScanError) and YamlDecoder::decode (an error type of its own that wraps it)
    if base.as_ref().map_or(false, |o: &Obs| o.err.is_some()) {
        use saphyr::LoadableYamlNode;
        if let Ok(Err(e)) = catch_unwind(AssertUnwindSafe(|| saphyr::Yaml::load_from_str(s))) {
            let m = e.marker();
            let want = format!("line {} column {}", m.line(), m.col() + 1);
            let shown = e.to_string();
            if !shown.ends_with(&want) {
                acc.violation(viol("error-display api=load_from_str".into(), s, &format!("Display ends with {want:?}"), format!("Display = {shown:?}")));
            }
            let ascii_led = s.as_bytes().first().map_or(false, |b| *b != 0 && b.is_ascii()) && s.as_bytes().get(1).map_or(true, |b| *b != 0);
            if ascii_led {
                if let Ok(Err(de)) = catch_unwind(AssertUnwindSafe(|| saphyr::YamlDecoder::read(s.as_bytes()).decode().map(|_| ()))) {
                    let dshown = de.to_string();
                    if dshown != shown {
                        acc.violation(viol("error-display api=decode".into(), s, &format!("the printed form of the wrapped scan error: {shown:?}"), format!("Display = {dshown:?}")));
                    }
                }
            }
        }
    }
    if let Some(o) = base {
        // non-trivial: at least one marker beyond line 1 or a quoted/plain scalar with text
        let multi = o.evs.iter().any(|e| e.1.el > 1) || o.err.as_ref().map_or(false, |e| e.line > 1);
        if multi || o.evs.len() > 5 {
            let cls = h64(&(o.kinds(), o.evs.iter().map(|e| (e.1.sl, e.1.sc, e.1.el, e.1.ec)).collect::<Vec<_>>(), o.err.as_ref().map(|e| (e.line, e.col))));
            if acc.class(cls) && o.evs.len() > 6 {
                acc.sample(json!({"input": s, "events": o.kinds(), "spans": o.evs.iter().map(|e| format!("{}:{}-{}:{}", e.1.sl, e.1.sc, e.1.el, e.1.ec)).collect::<Vec<_>>()}));
            }
        }
    }
}

// ---------------------------------------------------------------------------------------------
// C14
// ---------------------------------------------------------------------------------------------

pub fn c14_compare(lf: &Obs, x: &Obs) -> Option<(&'static str, String)> {
    for (i, (p, q)) in lf.evs.iter().zip(x.evs.iter()).enumerate() {
        if p.0 != q.0 {
            return Some(("event", format!("event #{i}: {:?} vs {:?}", p.0, q.0)));
        }
        if (p.1.sl, p.1.sc, p.1.el, p.1.ec) != (q.1.sl, q.1.sc, q.1.el, q.1.ec) {
            return Some(("line-col", format!("event #{i} {:?}: {:?} vs {:?}", p.0, p.1, q.1)));
        }
    }
    if lf.evs.len() != x.evs.len() {
        return Some(("event-count", format!("{} vs {} events", lf.evs.len(), x.evs.len())));
    }
    match (&lf.err, &x.err) {
        (None, None) => None,
        (Some(e), Some(f)) => {
            if e.info != f.info {
                Some(("error-message", format!("{:?} vs {:?}", e.info, f.info)))
            } else if (e.line, e.col) != (f.line, f.col) {
                Some(("error-position", format!("{}:{} vs {}:{} ({})", e.line, e.col, f.line, f.col, e.info)))
            } else {
                None
            }
        }
        (a, b) => Some(("success", format!("LF error {:?} vs substituted error {:?}", a.as_ref().map(|e| &e.info), b.as_ref().map(|e| &e.info)))),
    }
}

pub fn c14_eval(s: &str, acc: &mut Acc) {
    if s.contains('\r') || !s.contains('\n') {
        acc.count("skipped_no_lf_or_has_cr", 1);
        return;
    }
    acc.evals += 1;
    for b in [Backend::Str, Backend::Buf] {
        let Ok(lf) = observe(s, b, Api::Iter) else { continue };
        for (name, rep) in [("crlf", "\r\n"), ("cr", "\r")] {
            let t = s.replace('\n', rep);
            match observe(&t, b, Api::Iter) {
                Err(msg) => acc.violation(viol(format!("panic-under sub={name} msg={}", classify_panic(&msg)), s, "same parse", format!("panic: {msg}"))),
                Ok(x) => {
                    if let Some((what, d)) = c14_compare(&lf, &x) {
                        acc.violation(viol(format!("break-style-diff sub={name} what={what}"), s, "same events, line/col and error", format!("backend={} {d}", b.name())));
                    }
                }
            }
        }
        if b == Backend::Str {
            let cls = h64(&(lf.kinds(), lf.evs.iter().map(|e| (e.1.sl, e.1.el)).collect::<Vec<_>>(), lf.err.as_ref().map(|e| e.info.clone())));
            if acc.class(cls) && lf.evs.len() > 6 {
                acc.sample(json!({"input": s, "events": lf.kinds()}));
            }
        }
    }
}

// ---------------------------------------------------------------------------------------------
// drivers
// ---------------------------------------------------------------------------------------------

pub fn wall_cap(tier: Tier) -> u64 {
    let d = match tier {
        // generous on purpose: the caps only bound a run that has gone wrong; on a machine that is
        // busy with other work a quick check may need several times its idle time
        Tier::Quick => 900,
        Tier::Thorough => 90 * 60,
    };
    std::env::var("VERIF_WALL_CAP").ok().and_then(|s| s.parse().ok()).unwrap_or(d)
}

/// `S-long` for the differential / position / grammar sweeps: every non-nesting generator of
/// C01's list at sizes beyond 2^16 lines, columns and events. A violation is recorded by generator
/// and size, not by its text.
pub fn run_long<F>(rep: &mut Report, tier: Tier, budget: &Budget, f: F)
where
    F: Fn(&str, &mut Acc) + Sync,
{
    let sizes: &[usize] = if tier == Tier::Quick { &[300_000] } else { &[300_000, 1_200_000] };
    let gens = crate::props::c01::long_gens();
    let jobs: Vec<(usize, usize)> = (0..gens.len()).filter(|g| !gens[*g].1).flat_map(|g| sizes.iter().map(move |&n| (g, n))).collect();
    let (acc, done) = par_blocks(jobs.len() as u64, budget, |b, acc| {
        let (g, n) = jobs[b as usize];
        let text = (gens[g].2)(n);
        let mut a = Acc::default();
        f(&text, &mut a);
        for (_, (_, v)) in a.viols.iter_mut() {
            v.case = json!({"kind": "long", "generator": gens[g].0, "size": n});
        }
        a.samples.clear();
        a.class(h64(&("long", gens[g].0, n)));
        acc.merge(a);
    });
    let n = acc.evals;
    rep.acc.merge(acc);
    rep.scope(&format!("long: {} generators x sizes {sizes:?} characters (more than 2^16 lines / columns / events)", jobs.len() / sizes.len()), n, done == jobs.len() as u64);
}

pub fn replay_with(case: &Value, f: impl Fn(&str, &mut Acc)) -> Result<Acc, String> {
    if case["kind"] == "long" {
        let gens = crate::props::c01::long_gens();
        let name = case["generator"].as_str().ok_or("no generator")?;
        let g = gens.iter().find(|g| g.0 == name).ok_or("unknown generator")?;
        let mut acc = Acc::default();
        f(&(g.2)(case["size"].as_u64().unwrap_or(100) as usize), &mut acc);
        return Ok(acc);
    }
    let s = case_text(case)?;
    let mut acc = Acc::default();
    f(&s, &mut acc);
    Ok(acc)
}
