//! Accumulators, violations, replay files, evidence files and known-finding matching.

use serde::{Deserialize, Serialize};
use serde_json::{json, Value};
use std::collections::{BTreeMap, HashSet};
use std::hash::{Hash, Hasher};
use std::path::PathBuf;
use std::time::Instant;

#[derive(Clone, Copy, Debug, PartialEq, Eq)]
pub enum Tier {
    Quick,
    Thorough,
}
impl Tier {
    pub fn name(self) -> &'static str {
        match self {
            Tier::Quick => "quick",
            Tier::Thorough => "thorough",
        }
    }
    pub fn parse(s: &str) -> Option<Tier> {
        match s {
            "quick" => Some(Tier::Quick),
            "thorough" => Some(Tier::Thorough),
            _ => None,
        }
    }
}

pub fn verif_root() -> PathBuf {
    std::env::var("VERIF_ROOT").map(PathBuf::from).unwrap_or_else(|_| PathBuf::from("/verif"))
}

pub fn seed() -> u64 {
    std::env::var("VERIF_SEED").ok().and_then(|s| s.parse::<i64>().ok()).map(|v| v as u64).unwrap_or(0)
}

/// Deterministic 64-bit hash (FNV-1a based `Hasher`), independent of `RandomState`.
#[derive(Clone)]
pub struct Fnv(pub u64);
impl Default for Fnv {
    fn default() -> Self {
        Fnv(0xcbf29ce484222325)
    }
}
impl Hasher for Fnv {
    fn finish(&self) -> u64 {
        // final avalanche
        let mut x = self.0;
        x ^= x >> 33;
        x = x.wrapping_mul(0xff51afd7ed558ccd);
        x ^= x >> 33;
        x
    }
    fn write(&mut self, bytes: &[u8]) {
        for b in bytes {
            self.0 ^= *b as u64;
            self.0 = self.0.wrapping_mul(0x100000001b3);
        }
    }
}
pub fn h64<T: Hash + ?Sized>(t: &T) -> u64 {
    let mut h = Fnv::default();
    t.hash(&mut h);
    h.finish()
}

/// One violating case.
#[derive(Clone, Debug, Serialize, Deserialize)]
pub struct Violation {
    /// finding key produced by the property's classifier
    pub key: String,
    pub expected: String,
    pub observed: String,
    /// replayable case payload (property specific)
    pub case: Value,
    /// size metric used to keep the smallest witness per key
    pub size: usize,
}

#[derive(Default)]
pub struct Acc {
    pub evals: u64,
    pub counters: BTreeMap<String, u64>,
    /// hashes of distinct non-trivial classes
    pub classes: HashSet<u64>,
    pub viols: BTreeMap<String, (u64, Violation)>,
    pub viol_overflow: u64,
    pub samples: Vec<Value>,
    pub machinery_errors: Vec<String>,
    pub maxima: BTreeMap<String, u64>,
    pub classes_capped: bool,
}

const MAX_KEYS: usize = 2000;
/// Upper bounds on the distinct-class sets (memory): per accumulator and after merging. When a
/// cap is reached the count is a lower bound (`classes_capped`).
const CLASS_CAP_LOCAL: usize = 1 << 21;
const CLASS_CAP_TOTAL: usize = 1 << 23;
const MAX_SAMPLES: usize = 12;

impl Acc {
    pub fn count(&mut self, name: &str, n: u64) {
        if let Some(c) = self.counters.get_mut(name) {
            *c += n;
        } else {
            self.counters.insert(name.to_string(), n);
        }
    }
    pub fn maximum(&mut self, name: &str, v: u64) {
        let e = self.maxima.entry(name.to_string()).or_insert(0);
        if v > *e {
            *e = v;
        }
    }
    pub fn class(&mut self, h: u64) -> bool {
        if self.classes.len() >= CLASS_CAP_LOCAL {
            self.classes_capped = true;
            return false;
        }
        self.classes.insert(h)
    }
    pub fn sample(&mut self, v: Value) {
        if self.samples.len() < MAX_SAMPLES {
            self.samples.push(v);
        }
    }
    pub fn violation(&mut self, v: Violation) {
        if let Some(e) = self.viols.get_mut(&v.key) {
            e.0 += 1;
            if v.size < e.1.size {
                e.1 = v;
            }
        } else if self.viols.len() < MAX_KEYS {
            self.viols.insert(v.key.clone(), (1, v));
        } else {
            self.viol_overflow += 1;
        }
    }
    pub fn merge(&mut self, o: Acc) {
        self.evals += o.evals;
        for (k, v) in o.counters {
            *self.counters.entry(k).or_insert(0) += v;
        }
        for (k, v) in o.maxima {
            let e = self.maxima.entry(k).or_insert(0);
            if v > *e {
                *e = v;
            }
        }
        self.classes_capped |= o.classes_capped;
        if self.classes.is_empty() {
            self.classes = o.classes;
        } else {
            for c in o.classes {
                if self.classes.len() >= CLASS_CAP_TOTAL {
                    self.classes_capped = true;
                    break;
                }
                self.classes.insert(c);
            }
        }
        for (k, (n, v)) in o.viols {
            if let Some(e) = self.viols.get_mut(&k) {
                e.0 += n;
                if v.size < e.1.size {
                    e.1 = v;
                }
            } else if self.viols.len() < MAX_KEYS {
                self.viols.insert(k, (n, v));
            } else {
                self.viol_overflow += n;
            }
        }
        self.viol_overflow += o.viol_overflow;
        for s in o.samples {
            self.sample(s);
        }
        self.machinery_errors.extend(o.machinery_errors);
    }
}

#[derive(Clone, Debug, Deserialize)]
pub struct KnownFinding {
    pub property: String,
    pub id: String,
    pub status: String,
    pub key: String,
    pub what: String,
    #[serde(default)]
    pub commit: Option<String>,
}

pub fn load_known_findings() -> Result<Vec<KnownFinding>, String> {
    let p = verif_root().join("findings/known_findings.json");
    let txt = std::fs::read_to_string(&p).map_err(|e| format!("cannot read {}: {e}", p.display()))?;
    serde_json::from_str::<Vec<KnownFinding>>(&txt).map_err(|e| format!("cannot parse {}: {e}", p.display()))
}

/// Everything a check hands to `finish`.
pub struct Report {
    pub property: String,
    pub tier: Tier,
    pub level: &'static str, // "model_checking" | "exploration"
    pub acc: Acc,
    pub rule: String,
    pub assumptions: Vec<String>,
    /// scope name -> (cases, completed)
    pub scopes: Vec<(String, u64, bool)>,
    /// model-checking counts (states, transitions, traces validated)
    pub mc: Option<(u64, u64, u64)>,
    pub started: Instant,
    pub extra: BTreeMap<String, Value>,
    /// minimum number of scopes that must have completed for the run to count
    pub mandatory_scopes: usize,
}

impl Report {
    pub fn new(property: &str, tier: Tier, level: &'static str) -> Self {
        Report {
            property: property.into(),
            tier,
            level,
            acc: Acc::default(),
            rule: String::new(),
            assumptions: vec![],
            scopes: vec![],
            mc: None,
            started: Instant::now(),
            extra: BTreeMap::new(),
            mandatory_scopes: 0,
        }
    }
    pub fn scope(&mut self, name: &str, cases: u64, completed: bool) {
        eprintln!("[{}] scope {:<28} cases={:<12} completed={} t={:.1}s", self.property, name, cases, completed, self.started.elapsed().as_secs_f64());
        self.scopes.push((name.into(), cases, completed));
    }

    /// Writes replay files + evidence, prints VIOLATION / KNOWN-FINDING lines, returns exit code.
    pub fn finish(mut self) -> i32 {
        let root = verif_root();
        let known = match load_known_findings() {
            Ok(k) => k,
            Err(e) => {
                println!("MACHINERY-ERROR {e}");
                return 2;
            }
        };
        let known_keys: BTreeMap<&str, &KnownFinding> = known.iter().filter(|k| k.property == self.property && k.status == "known").map(|k| (k.key.as_str(), k)).collect();
        let mut unlisted = vec![];
        let mut listed = vec![];
        for (key, (n, v)) in &self.acc.viols {
            if let Some(k) = known_keys.get(key.as_str()) {
                listed.push((key.clone(), *n, (*k).clone(), v.clone()));
            } else {
                unlisted.push((key.clone(), *n, v.clone()));
            }
        }
        for (key, n, k, v) in &listed {
            println!("KNOWN-FINDING: property={} {} [{}] {} (cases={} e.g. {})", self.property, key, k.id, k.what, n, short(&v.case.to_string(), 120));
        }
        let dir = root.join("replays").join(&self.property);
        let mut printed = 0;
        let mut write_errors = vec![];
        unlisted.sort_by_key(|x| x.2.size);
        for (key, n, v) in &unlisted {
            if printed >= 10 {
                break;
            }
            let _ = std::fs::create_dir_all(&dir);
            let path = dir.join(format!("{:016x}.json", h64(key)));
            let doc = json!({"property": self.property, "finding_key": key, "cases_with_this_key": n, "expected": v.expected, "observed": v.observed, "case": v.case});
            if let Err(e) = std::fs::write(&path, serde_json::to_string_pretty(&doc).unwrap()) {
                write_errors.push(format!("cannot write {}: {e}", path.display()));
            }
            println!("VIOLATION property={} replay={}", self.property, path.display());
            eprintln!("  key={key} cases={n}\n  expected: {}\n  observed: {}\n  case: {}", short(&v.expected, 300), short(&v.observed, 300), short(&v.case.to_string(), 400));
            printed += 1;
        }
        if unlisted.len() > printed {
            eprintln!("  ... and {} more distinct finding keys", unlisted.len() - printed);
            if std::env::var("VP_ALL_KEYS").is_ok() {
                for (key, n, v) in &unlisted {
                    eprintln!("  KEY {key} cases={n} e.g. {}", short(&v.case.to_string(), 160));
                }
            }
        }
        self.acc.machinery_errors.extend(write_errors);

        let wall = self.started.elapsed().as_secs_f64();
        let all_complete = self.scopes.iter().all(|s| s.2);
        let completed_scopes = self.scopes.iter().filter(|s| s.2).count();
        let violations_total: u64 = unlisted.iter().map(|x| x.1).sum();
        let mut cov = serde_json::Map::new();
        cov.insert("evaluations".into(), json!(self.acc.evals));
        cov.insert("distinct_nontrivial".into(), json!(self.acc.classes.len()));
        cov.insert("rule".into(), json!(self.rule));
        if self.acc.samples.is_empty() {
            self.acc.samples.push(json!("(no non-trivial case sampled)"));
        }
        cov.insert("samples".into(), Value::Array(self.acc.samples.clone()));
        cov.insert("exhaustive".into(), json!(all_complete));
        if self.acc.classes_capped {
            cov.insert("distinct_nontrivial_is_lower_bound".into(), json!("the distinct-class set reached its memory cap; the real number of distinct non-trivial cases is larger"));
        }
        cov.insert("scopes".into(), Value::Array(self.scopes.iter().map(|(n, c, d)| json!({"scope": n, "cases": c, "completed": d})).collect()));
        if let Some((s, t, v)) = self.mc {
            cov.insert("states".into(), json!(s));
            cov.insert("transitions".into(), json!(t));
            cov.insert("traces_validated_against_impl".into(), json!(v));
        }
        cov.insert("counters".into(), json!(self.acc.counters));
        cov.insert("maxima".into(), json!(self.acc.maxima));
        cov.insert("known_findings_seen".into(), Value::Array(listed.iter().map(|(k, n, kf, _)| json!({"key": k, "id": kf.id, "cases": n})).collect()));
        cov.insert("unlisted_finding_keys".into(), json!(unlisted.len()));
        for (k, v) in &self.extra {
            cov.insert(k.clone(), v.clone());
        }
        let ev = json!({
            "property_id": self.property,
            "tier": self.tier.name(),
            "seed": seed() as i64,
            "level": self.level,
            "coverage": Value::Object(cov),
            "assumptions": self.assumptions,
            "wall_s": (wall * 100.0).round() / 100.0,
            "violations": violations_total,
        });
        let evdir = root.join("evidence");
        let _ = std::fs::create_dir_all(&evdir);
        let evpath = evdir.join(format!("{}.json", self.property));
        if let Err(e) = std::fs::write(&evpath, serde_json::to_string_pretty(&ev).unwrap() + "\n") {
            println!("MACHINERY-ERROR cannot write evidence {}: {e}", evpath.display());
            return 2;
        }
        // a per-tier copy (evidence/<id>.json is overwritten by whichever tier ran last); DESIGN §9's
        // cost table is generated from these
        let tdir = evdir.join("tiers");
        let _ = std::fs::create_dir_all(&tdir);
        let _ = std::fs::write(tdir.join(format!("{}.{}.json", self.property, self.tier.name())), serde_json::to_string_pretty(&ev).unwrap() + "\n");
        eprintln!(
            "[{}] tier={} evals={} distinct_nontrivial={} scopes={}/{} complete, unlisted_keys={} known_keys={} wall={:.1}s",
            self.property,
            self.tier.name(),
            self.acc.evals,
            self.acc.classes.len(),
            completed_scopes,
            self.scopes.len(),
            unlisted.len(),
            listed.len(),
            wall
        );
        if !unlisted.is_empty() {
            return 1;
        }
        if !self.acc.machinery_errors.is_empty() {
            for e in &self.acc.machinery_errors {
                println!("MACHINERY-ERROR {e}");
            }
            return 2;
        }
        if completed_scopes < self.mandatory_scopes {
            println!("MACHINERY-ERROR wall cap hit before the mandatory scopes completed ({} of {} mandatory)", completed_scopes, self.mandatory_scopes);
            return 2;
        }
        0
    }
}

pub fn short(s: &str, n: usize) -> String {
    if s.chars().count() <= n {
        s.to_string()
    } else {
        let t: String = s.chars().take(n).collect();
        format!("{t}…")
    }
}

/// Readable escaping of arbitrary input text for diagnostics.
pub fn esc(s: &str) -> String {
    format!("{s:?}")
}
