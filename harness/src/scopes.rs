//! Shared input scopes (DESIGN §2.5): character alphabets, the chunk menu, the test-suite corpus.

use crate::engine::StrSpace;
use std::path::PathBuf;

pub const SIGMA: &[(&str, &str)] = &[
    ("blk", "a \n-:?#|>"),
    ("hdr", "a \n-:|>+2\t#"),
    ("flow", "a \n-?:[]{},"),
    ("quo", "a \n:\"'\\n\t-"),
    ("prop", "a \n:-&*![", ),
    ("doc", "a \n-.%:#"),
    ("brk", "é\r\n a:-|\""),
    ("nul", "a \n\0-:\"|"),
];
pub const SIGMA_MIX: &str = "a \n-:?[]{},#&*!|>'\"%.";

/// `S-char(N)`: every alphabet at length N, Σmix at N-2.
pub fn s_char(n: usize) -> Vec<StrSpace> {
    let mut v: Vec<StrSpace> = SIGMA.iter().map(|(name, a)| StrSpace::chars(&format!("char:{name}^{n}"), a, n)).collect();
    v.push(StrSpace::chars(&format!("char:mix^{}", n.saturating_sub(2)), SIGMA_MIX, n.saturating_sub(2)));
    v
}

pub fn sigma(name: &str, n: usize) -> StrSpace {
    let a = SIGMA.iter().find(|x| x.0 == name).map(|x| x.1).unwrap_or_else(|| panic!("unknown alphabet {name}"));
    StrSpace::chars(&format!("char:{name}^{n}"), a, n)
}

/// The chunk menu of `S-tok`.
pub fn tok_menu() -> Vec<String> {
    let mut m: Vec<String> = SIGMA_MIX.chars().map(|c| c.to_string()).collect();
    for n in [14usize, 15, 16, 17] {
        m.push(" ".repeat(n));
    }
    for n in [15usize, 16, 17, 127, 128, 129] {
        m.push("a".repeat(n));
    }
    m.push("aaaaaaaaaaaaaaa:".into());
    m.push(format!("{}: ", "k".repeat(1023)));
    m.push(format!("{}: ", "k".repeat(1025)));
    m.push("[".repeat(255));
    m.push("[".repeat(256));
    m.push("{a: ".repeat(255));
    // a block scalar whose content indentation is w, followed by a line of exactly w spaces
    // (the `indent >= bufmaxlen - 2` path of skip_block_scalar_indent, for capacities 8 and 16)
    for w in [6usize, 7, 8, 14, 15, 16] {
        m.push(format!("|\n{sp}a\n{sp}", sp = " ".repeat(w)));
    }
    // block-scalar lines longer than the look-ahead buffer, ended by LF / CRLF / a lone CR (the raw
    // content-line path of the buffered back-end)
    m.push(format!("|\n {}\n b\n", "a".repeat(20)));
    m.push(format!(">\n {}\r\n {}\r c", "a".repeat(17), "b".repeat(33)));
    // percent-escaped multi-byte characters in tags (positions after them)
    m.push("!e%C3%A9 ".into());
    m.push("!<tag:%E2%82%AC> ".into());
    // a multi-line flow key that stays below 1024 characters with LF but not with CRLF
    m.push(format!("{{\"{}\": v}}\n", "aaaaaaaaa\n".repeat(101)));
    for s in ["|9", ">1-", "|+", "\"aaaaaaaaaaaa\\x41", "\"aaaaaaaaaaaaaaé", "\"aaaaaaaaaa\\U0001F600", "%YAML 1.2\n", "%TAG !e! tag:e:\n", "---\n", "...\n", "!e!x ", "!<v> ", "&a ", "*a", "\n  ", "\n    ", "# c", "\r\n", "é", "\t", "\""] {
        m.push(s.to_string());
    }
    m
}
/// `S-props(K)`: sequences of node-property chunks (two anchor names, tags, aliases) and structure
pub fn s_props(k: usize) -> StrSpace {
    let m = ["&a ", "&b ", "!t ", "!t &a ", "&a !t ", "*a", "*b", "x", "- ", "\n", "[", "]", ", ", ": "];
    StrSpace::chunks(&format!("props^{k}"), m.iter().map(|s| s.to_string()).collect(), k)
}
/// `S-dir(K)`: directive lines built from chunks (version numbers at the u32 boundary, handles,
/// prefixes) followed by document starts
pub fn s_dir(k: usize) -> StrSpace {
    let m = ["%YAML ", "%TAG ", "%FOO ", "1", "2", "9999999999", "4294967295", "4294967296", ".", "!e! ", "!! ", "! ", "tag:e: ", "\n", "--- a\n", "--- !e!x a\n", " ", "#c", "...\n"];
    StrSpace::chunks(&format!("dir^{k}"), m.iter().map(|s| s.to_string()).collect(), k)
}
/// `S-esc(K)`: escape openers of double-quoted scalars and tags followed by ASCII hex digits, other
/// letters and digits of other scripts (which `char::is_numeric` accepts and `to_digit(16)` does not)
pub fn s_esc(k: usize) -> StrSpace {
    let m = ["\"", "\\x", "\\u", "\\U", "4", "1", "F", "g", "\u{663}", "\u{ff13}", "\u{b2}", "\u{ff21}", "%", "!", "!<", ">", " ", "a", "\n"];
    StrSpace::chunks(&format!("esc^{k}"), m.iter().map(|s| s.to_string()).collect(), k)
}
pub fn s_tok(k: usize) -> StrSpace {
    StrSpace::chunks(&format!("tok^{k}"), tok_menu(), k)
}

// ---------------------------------------------------------------------------------------------
// yaml-test-suite corpus (read with a reader of our own; the files are a fixture inside /repo)
// ---------------------------------------------------------------------------------------------

#[derive(Clone, Debug)]
pub struct SuiteCase {
    pub name: String,
    pub yaml: String,
    pub tree: Option<String>,
    pub json: Option<String>,
    pub fail: bool,
}

pub fn repo_root() -> PathBuf {
    std::env::var("VERIF_REPO").map(PathBuf::from).unwrap_or_else(|_| PathBuf::from("/repo"))
}

fn visual_to_raw(s: &str) -> String {
    let mut y = s.to_owned();
    for (pat, rep) in [("␣", " "), ("»", "\t"), ("—", ""), ("←", "\r"), ("⇔", "\u{FEFF}"), ("↵", ""), ("∎\n", "")] {
        y = y.replace(pat, rep);
    }
    y
}

/// Minimal reader for the suite's restricted YAML: a top-level sequence of mappings whose
/// values are plain/quoted one-liners or `|`/`|2` literal blocks.
pub fn load_suite() -> Result<Vec<SuiteCase>, String> {
    let dir = repo_root().join("parser/tests/yaml-test-suite/src");
    let mut files: Vec<PathBuf> = std::fs::read_dir(&dir).map_err(|e| format!("{}: {e}", dir.display()))?.filter_map(|e| e.ok().map(|e| e.path())).filter(|p| p.extension().map_or(false, |x| x == "yaml")).collect();
    files.sort();
    let mut out = vec![];
    for f in files {
        let txt = std::fs::read_to_string(&f).map_err(|e| format!("{}: {e}", f.display()))?;
        let base = f.file_stem().unwrap().to_string_lossy().to_string();
        let lines: Vec<&str> = txt.split('\n').collect();
        // split into entries
        let mut entries: Vec<Vec<(String, String)>> = vec![];
        let mut i = 0;
        while i < lines.len() {
            let l = lines[i];
            if l == "---" || l.is_empty() {
                i += 1;
                continue;
            }
            if l.starts_with("    ") && !entries.is_empty() {
                // continuation line of a multi-line plain value (only notes/names use this)
                i += 1;
                continue;
            }
            let (is_new, rest) = if let Some(r) = l.strip_prefix("- ") { (true, r) } else if let Some(r) = l.strip_prefix("  ") { (false, r) } else { return Err(format!("{}:{}: unexpected line {l:?}", f.display(), i + 1)) };
            if is_new {
                entries.push(vec![]);
            }
            let Some(colon) = rest.find(':') else { return Err(format!("{}:{}: no key in {l:?}", f.display(), i + 1)) };
            let key = rest[..colon].to_string();
            let val = rest[colon + 1..].trim_start();
            i += 1;
            let value = if val == "|" || val.starts_with("|") && val.len() == 2 {
                let ind = if val == "|" {
                    // auto-detect from first non-empty line
                    let mut j = i;
                    while j < lines.len() && lines[j].trim().is_empty() {
                        j += 1;
                    }
                    if j < lines.len() { lines[j].len() - lines[j].trim_start_matches(' ').len() } else { 4 }
                } else {
                    2 + (val.as_bytes()[1] - b'0') as usize
                };
                let mut body = String::new();
                while i < lines.len() {
                    let bl = lines[i];
                    if bl.trim_matches(' ').is_empty() && (bl.len() < ind) {
                        // blank line inside or after the block
                        body.push('\n');
                        i += 1;
                        continue;
                    }
                    let lead = bl.len() - bl.trim_start_matches(' ').len();
                    if lead < ind {
                        break;
                    }
                    body.push_str(&bl[ind..]);
                    body.push('\n');
                    i += 1;
                }
                // clip: drop trailing blank lines down to one break
                while body.ends_with("\n\n") {
                    body.pop();
                }
                if body == "\n" {
                    body.clear();
                }
                body
            } else if val.starts_with('\'') && val.ends_with('\'') && val.len() >= 2 {
                val[1..val.len() - 1].replace("''", "'")
            } else {
                val.to_string()
            };
            entries.last_mut().ok_or_else(|| format!("{}: key before first entry", f.display()))?.push((key, value));
        }
        let multi = entries.len() > 1;
        let mut cur: std::collections::BTreeMap<String, String> = Default::default();
        for (idx, e) in entries.iter().enumerate() {
            cur.remove("fail");
            for (k, v) in e {
                cur.insert(k.clone(), v.clone());
            }
            if cur.contains_key("skip") {
                continue;
            }
            let Some(y) = cur.get("yaml") else { continue };
            out.push(SuiteCase {
                name: if multi { format!("{base}-{idx:02}") } else { base.clone() },
                yaml: visual_to_raw(y),
                tree: cur.get("tree").map(|t| visual_to_raw(t)),
                json: cur.get("json").cloned(),
                fail: cur.get("fail").map_or(false, |v| v == "true"),
            });
        }
    }
    Ok(out)
}
