//! Adapters around the public API of saphyr / saphyr-parser (the code under test).

use saphyr::{LoadableYamlNode, MarkedYaml, MarkedYamlOwned, Scalar, ScalarOwned, Yaml, YamlData, YamlDataOwned, YamlOwned};
use saphyr_parser::{Event, Input, Marker, Parser, ScalarStyle, ScanError, Span, SpannedEventReceiver, Tag};
use std::cell::Cell;
use std::collections::VecDeque;
use std::panic::{catch_unwind, AssertUnwindSafe};

thread_local! {
    /// number of `Input` trait-method calls made through `GenInput` on this thread
    pub static CALLS: Cell<u64> = const { Cell::new(0) };
}
#[inline]
fn tick() {
    CALLS.with(|c| c.set(c.get() + 1));
}
pub fn calls_reset() {
    CALLS.with(|c| c.set(0));
}
pub fn calls_get() -> u64 {
    CALLS.with(|c| c.get())
}

/// Contract-conforming `Input` with configurable capacity, mirroring `BufferedInput`'s
/// observable semantics. `pushback` selects what `raw_read_non_breakz_ch` does with a break:
/// true = read it and put it in the buffer (like `BufferedInput`), false = leave it unread (like
/// `StrInput`). Every trait method call is counted in `CALLS`.
pub struct GenInput {
    chars: Vec<char>,
    pos: usize,
    buf: VecDeque<char>,
    cap: usize,
    pushback: bool,
}
impl GenInput {
    pub fn new(s: &str, cap: usize, pushback: bool) -> Self {
        GenInput { chars: s.chars().collect(), pos: 0, buf: VecDeque::with_capacity(cap), cap, pushback }
    }
    fn nextc(&mut self) -> Option<char> {
        if self.pos < self.chars.len() {
            self.pos += 1;
            Some(self.chars[self.pos - 1])
        } else {
            None
        }
    }
}
impl Input for GenInput {
    fn lookahead(&mut self, count: usize) {
        tick();
        assert!(count <= self.cap, "lookahead({count}) exceeds advertised capacity {}", self.cap);
        while self.buf.len() < count {
            let c = self.nextc().unwrap_or('\0');
            self.buf.push_back(c);
        }
    }
    fn buflen(&self) -> usize {
        tick();
        self.buf.len()
    }
    fn bufmaxlen(&self) -> usize {
        self.cap
    }
    fn raw_read_ch(&mut self) -> char {
        tick();
        assert!(self.buf.is_empty(), "raw_read_ch with a non-empty buffer");
        self.nextc().unwrap_or('\0')
    }
    fn raw_read_non_breakz_ch(&mut self) -> Option<char> {
        tick();
        assert!(self.buf.is_empty(), "raw_read_non_breakz_ch with a non-empty buffer");
        if self.pos >= self.chars.len() {
            return None;
        }
        let c = self.chars[self.pos];
        if c == '\n' || c == '\r' || c == '\0' {
            if self.pushback {
                self.pos += 1;
                self.buf.push_back(c);
            }
            None
        } else {
            self.pos += 1;
            Some(c)
        }
    }
    fn skip(&mut self) {
        tick();
        self.buf.pop_front();
    }
    fn skip_n(&mut self, n: usize) {
        tick();
        assert!(self.buf.len() >= n, "skip_n({n}) beyond the {} buffered characters", self.buf.len());
        self.buf.drain(0..n);
    }
    fn peek(&self) -> char {
        tick();
        assert!(!self.buf.is_empty(), "peek on an empty buffer");
        self.buf[0]
    }
    fn peek_nth(&self, n: usize) -> char {
        tick();
        assert!(self.buf.len() > n, "peek_nth({n}) beyond the {} buffered characters", self.buf.len());
        self.buf[n]
    }
}

/// Owned tag as (handle, suffix)
pub type OTag = Option<(String, String)>;
fn otag(t: &Option<Tag>) -> OTag {
    t.as_ref().map(|t| (t.handle.clone(), t.suffix.clone()))
}
pub fn tag_of(t: &OTag) -> Option<Tag> {
    t.as_ref().map(|(h, s)| Tag { handle: h.clone(), suffix: s.clone() })
}

/// Owned event.
#[derive(Clone, Debug, PartialEq, Eq, Hash)]
pub enum Ev {
    SS,
    SE,
    DS(bool),
    DE,
    Al(usize),
    Sc(String, ScalarStyle, usize, OTag),
    SeqS(usize, OTag),
    SeqE,
    MapS(usize, OTag),
    MapE,
    Nothing,
}
impl Ev {
    pub fn of(e: &Event) -> Ev {
        match e {
            Event::Nothing => Ev::Nothing,
            Event::StreamStart => Ev::SS,
            Event::StreamEnd => Ev::SE,
            Event::DocumentStart(b) => Ev::DS(*b),
            Event::DocumentEnd => Ev::DE,
            Event::Alias(a) => Ev::Al(*a),
            Event::Scalar(v, st, a, t) => Ev::Sc(v.to_string(), *st, *a, otag(t)),
            Event::SequenceStart(a, t) => Ev::SeqS(*a, otag(t)),
            Event::SequenceEnd => Ev::SeqE,
            Event::MappingStart(a, t) => Ev::MapS(*a, otag(t)),
            Event::MappingEnd => Ev::MapE,
        }
    }
    pub fn to_event(&self) -> Event<'static> {
        match self {
            Ev::Nothing => Event::Nothing,
            Ev::SS => Event::StreamStart,
            Ev::SE => Event::StreamEnd,
            Ev::DS(b) => Event::DocumentStart(*b),
            Ev::DE => Event::DocumentEnd,
            Ev::Al(a) => Event::Alias(*a),
            Ev::Sc(v, st, a, t) => Event::Scalar(v.clone().into(), *st, *a, tag_of(t)),
            Ev::SeqS(a, t) => Event::SequenceStart(*a, tag_of(t)),
            Ev::SeqE => Event::SequenceEnd,
            Ev::MapS(a, t) => Event::MappingStart(*a, tag_of(t)),
            Ev::MapE => Event::MappingEnd,
        }
    }
    /// one-letter kind, for event-kind sentences
    pub fn kind(&self) -> char {
        match self {
            Ev::SS => 'S',
            Ev::SE => 'E',
            Ev::DS(_) => 'D',
            Ev::DE => 'd',
            Ev::Al(_) => '*',
            Ev::Sc(..) => '=',
            Ev::SeqS(..) => '[',
            Ev::SeqE => ']',
            Ev::MapS(..) => '{',
            Ev::MapE => '}',
            Ev::Nothing => '0',
        }
    }
}

/// Owned span: (start index, line, col, end index, line, col)
#[derive(Clone, Copy, Debug, PartialEq, Eq, Hash)]
pub struct Sp {
    pub si: usize,
    pub sl: usize,
    pub sc: usize,
    pub ei: usize,
    pub el: usize,
    pub ec: usize,
}
impl Sp {
    pub fn of(s: &Span) -> Sp {
        Sp { si: s.start.index(), sl: s.start.line(), sc: s.start.col(), ei: s.end.index(), el: s.end.line(), ec: s.end.col() }
    }
    pub fn to_span(&self) -> Span {
        Span::new(Marker::new(self.si, self.sl, self.sc), Marker::new(self.ei, self.el, self.ec))
    }
}

/// Owned error: info + marker
#[derive(Clone, Debug, PartialEq, Eq, Hash)]
pub struct Er {
    pub info: String,
    pub index: usize,
    pub line: usize,
    pub col: usize,
    pub display: String,
}
impl Er {
    pub fn of(e: &ScanError) -> Er {
        Er { info: e.info().to_string(), index: e.marker().index(), line: e.marker().line(), col: e.marker().col(), display: e.to_string() }
    }
}

/// Observation of one complete drive of a parser.
#[derive(Clone, Debug, PartialEq, Eq, Hash)]
pub struct Obs {
    pub evs: Vec<(Ev, Sp)>,
    pub err: Option<Er>,
    /// iterator APIs only: a further `next_event()` after StreamEnd returned something
    pub extra_after_end: bool,
}
impl Obs {
    pub fn kinds(&self) -> String {
        let mut s: String = self.evs.iter().map(|e| e.0.kind()).collect();
        if self.err.is_some() {
            s.push('!');
        }
        s
    }
}

pub const MAX_EVENTS: usize = 2_000_000;

/// Drive with `next_event` only.
pub fn drive_iter<T: Input>(mut p: Parser<T>) -> Obs {
    let mut evs = vec![];
    loop {
        match p.next_event() {
            None => return Obs { evs, err: None, extra_after_end: false },
            Some(Ok((e, s))) => {
                let end = matches!(e, Event::StreamEnd);
                evs.push((Ev::of(&e), Sp::of(&s)));
                if end {
                    let extra = p.next_event().is_some();
                    return Obs { evs, err: None, extra_after_end: extra };
                }
            }
            Some(Err(e)) => return Obs { evs, err: Some(Er::of(&e)), extra_after_end: false },
        }
        assert!(evs.len() <= MAX_EVENTS, "event flood: more than {MAX_EVENTS} events");
    }
}

/// Drive with one `peek` before every `next_event`; asserts nothing itself (C17 compares).
pub fn drive_peeknext<T: Input>(mut p: Parser<T>) -> Obs {
    let mut evs = vec![];
    loop {
        match p.peek() {
            None => return Obs { evs, err: None, extra_after_end: false },
            Some(Err(e)) => return Obs { evs, err: Some(Er::of(&e)), extra_after_end: false },
            Some(Ok(_)) => {}
        }
        match p.next_event() {
            None => return Obs { evs, err: None, extra_after_end: false },
            Some(Ok((e, s))) => {
                let end = matches!(e, Event::StreamEnd);
                evs.push((Ev::of(&e), Sp::of(&s)));
                if end {
                    let extra = p.peek().is_some() || p.next_event().is_some();
                    return Obs { evs, err: None, extra_after_end: extra };
                }
            }
            Some(Err(e)) => return Obs { evs, err: Some(Er::of(&e)), extra_after_end: false },
        }
        assert!(evs.len() <= MAX_EVENTS, "event flood: more than {MAX_EVENTS} events");
    }
}

pub struct Recorder(pub Vec<(Ev, Sp)>);
impl<'a> SpannedEventReceiver<'a> for Recorder {
    fn on_event(&mut self, ev: Event<'a>, span: Span) {
        self.0.push((Ev::of(&ev), Sp::of(&span)));
        assert!(self.0.len() <= MAX_EVENTS, "event flood: more than {MAX_EVENTS} events");
    }
}

/// Drive with `load(recorder, true)`.
pub fn drive_push<T: Input>(mut p: Parser<T>) -> Obs {
    let mut rec = Recorder(vec![]);
    let r = p.load(&mut rec, true);
    Obs { evs: rec.0, err: r.err().map(|e| Er::of(&e)), extra_after_end: false }
}

/// Drive with repeated `load(recorder, false)` until StreamEnd was delivered or an error.
/// Returns the observation and the number of calls made.
pub fn drive_push1<T: Input>(mut p: Parser<T>) -> (Obs, Vec<usize>) {
    let mut rec = Recorder(vec![]);
    let mut per_call = vec![];
    for _ in 0..100_000 {
        let before = rec.0.len();
        let r = p.load(&mut rec, false);
        per_call.push(rec.0.len() - before);
        if let Err(e) = r {
            return (Obs { evs: rec.0, err: Some(Er::of(&e)), extra_after_end: false }, per_call);
        }
        if matches!(rec.0.last(), Some((Ev::SE, _))) {
            return (Obs { evs: rec.0, err: None, extra_after_end: false }, per_call);
        }
    }
    panic!("load(multi=false) did not reach StreamEnd in 100000 calls");
}

#[derive(Clone, Copy, Debug, PartialEq, Eq, Hash)]
pub enum Backend {
    Str,
    Buf,
    Gen(usize, bool),
}
impl Backend {
    pub fn name(&self) -> String {
        match self {
            Backend::Str => "str".into(),
            Backend::Buf => "buf".into(),
            Backend::Gen(c, pb) => format!("gen{}{}", c, if *pb { "pb" } else { "un" }),
        }
    }
    pub fn parse(s: &str) -> Option<Backend> {
        match s {
            "str" => Some(Backend::Str),
            "buf" => Some(Backend::Buf),
            _ => {
                let r = s.strip_prefix("gen")?;
                let (n, pb) = if let Some(n) = r.strip_suffix("pb") { (n, true) } else { (r.strip_suffix("un")?, false) };
                Some(Backend::Gen(n.parse().ok()?, pb))
            }
        }
    }
}
#[derive(Clone, Copy, Debug, PartialEq, Eq, Hash)]
pub enum Api {
    Iter,
    PeekNext,
    Push,
    Push1,
}
impl Api {
    pub fn name(&self) -> &'static str {
        match self {
            Api::Iter => "iter",
            Api::PeekNext => "peeknext",
            Api::Push => "push",
            Api::Push1 => "push1",
        }
    }
    pub fn parse(s: &str) -> Option<Api> {
        Some(match s {
            "iter" => Api::Iter,
            "peeknext" => Api::PeekNext,
            "push" => Api::Push,
            "push1" => Api::Push1,
            _ => return None,
        })
    }
}

fn drive_api<T: Input>(p: Parser<T>, api: Api) -> Obs {
    match api {
        Api::Iter => drive_iter(p),
        Api::PeekNext => drive_peeknext(p),
        Api::Push => drive_push(p),
        Api::Push1 => drive_push1(p).0,
    }
}

/// `observe` on StrInput with `keep_tags(true)` set on the parser.
pub fn observe_keep_tags(s: &str, api: Api) -> Result<Obs, String> {
    catch_unwind(AssertUnwindSafe(|| drive_api(Parser::new_from_str(s).keep_tags(true), api))).map_err(panic_msg)
}

/// Runs the parser over `s` with the given back-end and API; a panic is returned as Err(message).
pub fn observe(s: &str, b: Backend, api: Api) -> Result<Obs, String> {
    let r = catch_unwind(AssertUnwindSafe(|| match b {
        Backend::Str => drive_api(Parser::new_from_str(s), api),
        Backend::Buf => drive_api(Parser::new_from_iter(s.chars()), api),
        Backend::Gen(cap, pb) => drive_api(Parser::new(GenInput::new(s, cap, pb)), api),
    }));
    r.map_err(panic_msg)
}

pub fn panic_msg(e: Box<dyn std::any::Any + Send>) -> String {
    if let Some(s) = e.downcast_ref::<&str>() {
        s.to_string()
    } else if let Some(s) = e.downcast_ref::<String>() {
        s.clone()
    } else {
        "panic (non-string payload)".into()
    }
}

pub fn quiet_panics() {
    std::panic::set_hook(Box::new(|_| {}));
}

// ---------------------------------------------------------------------------------------------
// canonical trees
// ---------------------------------------------------------------------------------------------

#[derive(Clone, Debug, PartialEq, Eq, Hash)]
pub enum Canon {
    Null,
    Bool(bool),
    Int(i64),
    Float(u64),
    Str(String),
    Rep(String, ScalarStyle, OTag),
    Bad,
    Alias(usize),
    Seq(Vec<Canon>),
    Map(Vec<(Canon, Canon)>),
}
pub fn float_bits(f: f64) -> u64 {
    if f.is_nan() {
        f64::NAN.to_bits()
    } else {
        f.to_bits()
    }
}
pub fn canon_scalar(s: &Scalar) -> Canon {
    match s {
        Scalar::Null => Canon::Null,
        Scalar::Boolean(b) => Canon::Bool(*b),
        Scalar::Integer(i) => Canon::Int(*i),
        Scalar::FloatingPoint(f) => Canon::Float(float_bits(f.0)),
        Scalar::String(s) => Canon::Str(s.to_string()),
    }
}
pub fn canon_scalar_owned(s: &ScalarOwned) -> Canon {
    canon_scalar(&s.as_scalar())
}
pub fn canon_yaml(y: &Yaml) -> Canon {
    match y {
        Yaml::Value(s) => canon_scalar(s),
        Yaml::Representation(v, st, t) => Canon::Rep(v.to_string(), *st, otag(t)),
        Yaml::BadValue => Canon::Bad,
        Yaml::Alias(a) => Canon::Alias(*a),
        Yaml::Sequence(v) => Canon::Seq(v.iter().map(canon_yaml).collect()),
        Yaml::Mapping(m) => Canon::Map(m.iter().map(|(k, v)| (canon_yaml(k), canon_yaml(v))).collect()),
    }
}
pub fn canon_owned(y: &YamlOwned) -> Canon {
    match y {
        YamlOwned::Value(s) => canon_scalar_owned(s),
        YamlOwned::Representation(v, st, t) => Canon::Rep(v.to_string(), *st, otag(t)),
        YamlOwned::BadValue => Canon::Bad,
        YamlOwned::Alias(a) => Canon::Alias(*a),
        YamlOwned::Sequence(v) => Canon::Seq(v.iter().map(canon_owned).collect()),
        YamlOwned::Mapping(m) => Canon::Map(m.iter().map(|(k, v)| (canon_owned(k), canon_owned(v))).collect()),
    }
}
pub fn canon_marked(y: &MarkedYaml) -> Canon {
    match &y.data {
        YamlData::Value(s) => canon_scalar(s),
        YamlData::Representation(v, st, t) => Canon::Rep(v.to_string(), *st, otag(t)),
        YamlData::BadValue => Canon::Bad,
        YamlData::Alias(a) => Canon::Alias(*a),
        YamlData::Sequence(v) => Canon::Seq(v.iter().map(canon_marked).collect()),
        YamlData::Mapping(m) => Canon::Map(m.iter().map(|(k, v)| (canon_marked(k), canon_marked(v))).collect()),
    }
}
pub fn canon_marked_owned(y: &MarkedYamlOwned) -> Canon {
    match &y.data {
        YamlDataOwned::Value(s) => canon_scalar_owned(s),
        YamlDataOwned::Representation(v, st, t) => Canon::Rep(v.to_string(), *st, otag(t)),
        YamlDataOwned::BadValue => Canon::Bad,
        YamlDataOwned::Alias(a) => Canon::Alias(*a),
        YamlDataOwned::Sequence(v) => Canon::Seq(v.iter().map(canon_marked_owned).collect()),
        YamlDataOwned::Mapping(m) => Canon::Map(m.iter().map(|(k, v)| (canon_marked_owned(k), canon_marked_owned(v))).collect()),
    }
}

#[derive(Clone, Copy, Debug, PartialEq, Eq, Hash)]
pub enum NodeType {
    Yaml,
    Owned,
    Marked,
    MarkedOwned,
}
pub const NODE_TYPES: [NodeType; 4] = [NodeType::Yaml, NodeType::Owned, NodeType::Marked, NodeType::MarkedOwned];

/// Load `s` as the given node type via `load_from_str`; panics are Err(Err(msg)).
pub fn load_canon(s: &str, nt: NodeType) -> Result<Result<Vec<Canon>, Er>, String> {
    catch_unwind(AssertUnwindSafe(|| match nt {
        NodeType::Yaml => Yaml::load_from_str(s).map(|d| d.iter().map(canon_yaml).collect()).map_err(|e| Er::of(&e)),
        NodeType::Owned => YamlOwned::load_from_str(s).map(|d| d.iter().map(canon_owned).collect()).map_err(|e| Er::of(&e)),
        NodeType::Marked => MarkedYaml::load_from_str(s).map(|d| d.iter().map(canon_marked).collect()).map_err(|e| Er::of(&e)),
        NodeType::MarkedOwned => MarkedYamlOwned::load_from_str(s).map(|d| d.iter().map(canon_marked_owned).collect()).map_err(|e| Er::of(&e)),
    }))
    .map_err(panic_msg)
}
