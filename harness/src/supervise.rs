//! Supervising parent for the in-process sweeps: `vp check X` runs the check in a child process
//! (`vp check-inner`), watches its per-thread progress slots, and when the child dies by a signal
//! or stalls, bisects the blocks that were running down to a single case in fresh children
//! (single-threaded, announcing every case) and confirms it. A confirmed abort or hang is a
//! VIOLATION of the property (none of the properties allows either); an unconfirmed one is a
//! MACHINERY-ERROR.

use crate::engine::{CASE_AREA, CASE_MAX, NSLOTS, SLOT, TID_AREA};
use crate::report::{h64, verif_root, Tier};
use serde_json::json;
use std::os::unix::fs::FileExt;
use std::os::unix::process::ExitStatusExt;
use std::process::{Command, Stdio};
use std::time::{Duration, Instant};

fn read_slots(f: &std::fs::File) -> Vec<(u64, u64, u64, u64)> {
    let mut buf = vec![0u8; (SLOT * NSLOTS) as usize];
    let _ = f.read_at(&mut buf, 0);
    buf.chunks(32).map(|c| (u64::from_le_bytes(c[0..8].try_into().unwrap()), u64::from_le_bytes(c[8..16].try_into().unwrap()), u64::from_le_bytes(c[16..24].try_into().unwrap()), u64::from_le_bytes(c[24..32].try_into().unwrap()))).collect()
}
fn read_tids(f: &std::fs::File) -> Vec<u64> {
    let mut buf = vec![0u8; (NSLOTS * 8) as usize];
    let _ = f.read_at(&mut buf, TID_AREA);
    buf.chunks(8).map(|c| u64::from_le_bytes(c.try_into().unwrap())).collect()
}
/// CPU seconds of one thread of the child
fn thread_cpu_secs(pid: u32, tid: u64) -> Option<f64> {
    let st = std::fs::read_to_string(format!("/proc/{pid}/task/{tid}/stat")).ok()?;
    let rest = &st[st.rfind(')')? + 1..];
    let f: Vec<&str> = rest.split_whitespace().collect();
    let ut: f64 = f.get(11)?.parse().ok()?;
    let stime: f64 = f.get(12)?.parse().ok()?;
    Some((ut + stime) / 100.0)
}
fn read_case(f: &std::fs::File) -> Option<(u64, String)> {
    let mut head = [0u8; 16];
    f.read_at(&mut head, CASE_AREA).ok()?;
    let idx = u64::from_le_bytes(head[0..8].try_into().unwrap());
    let n = u64::from_le_bytes(head[8..16].try_into().unwrap()) as usize;
    if n == 0 && idx == 0 {
        return None;
    }
    let mut b = vec![0u8; n.min(CASE_MAX)];
    f.read_at(&mut b, CASE_AREA + 16).ok()?;
    Some((idx, String::from_utf8_lossy(&b).to_string()))
}

fn progress_file(tag: &str) -> Option<(std::path::PathBuf, std::fs::File)> {
    let dir = verif_root().join("harness/target/progress");
    std::fs::create_dir_all(&dir).ok()?;
    let path = dir.join(format!("{tag}-{}.bin", std::process::id()));
    let f = std::fs::OpenOptions::new().read(true).write(true).create(true).truncate(true).open(&path).ok()?;
    f.set_len(TID_AREA + NSLOTS * 8).ok()?;
    Some((path, f))
}

enum End {
    Exit(i32),
    Signal(i32),
    Stalled(Vec<(u64, u64)>),
    /// the child made no progress but was not given CPU time either: the machine is too busy
    Starved,
}

use crate::isolate::cpu_secs;

fn run_inner(prop: &str, tier: Tier, only: Option<(u64, u64)>, path: &std::path::Path, f: &std::fs::File, stall: Duration, quiet: bool) -> End {
    let exe = std::env::current_exe().expect("current_exe");
    let mut cmd = Command::new(exe);
    cmd.args(["check-inner", prop, "--tier", tier.name()]).env("VP_PROGRESS", path).stdin(Stdio::null());
    if let Some((s, b)) = only {
        cmd.env("VP_ONLY", format!("{s}:{b}"));
    }
    if quiet {
        cmd.stdout(Stdio::null()).stderr(Stdio::null());
    }
    let mut child = match cmd.spawn() {
        Ok(c) => c,
        Err(_) => return End::Exit(2),
    };
    let mut last = read_slots(f);
    let mut last_case = read_case(f);
    let mut since: Vec<Instant> = vec![Instant::now(); last.len()];
    let mut case_since = Instant::now();
    let pid = child.id();
    // "no progress" only counts while the child is being given CPU time: on an overloaded or
    // thrashing machine a process can stand still for minutes without anything being wrong with it
    let mut since_cpu: Vec<f64> = vec![0.0; last.len()];
    let mut case_cpu = 0.0f64;
    loop {
        std::thread::sleep(Duration::from_millis(200));
        match child.try_wait() {
            Ok(Some(st)) => {
                return match st.signal() {
                    Some(sig) => End::Signal(sig),
                    None => End::Exit(st.code().unwrap_or(2)),
                }
            }
            Ok(None) => {}
            Err(_) => return End::Exit(2),
        }
        let now = read_slots(f);
        let cpu = cpu_secs(pid).unwrap_or(0.0);
        let tids = read_tids(f);
        let mut stalled = vec![];
        for (i, (a, b)) in last.iter().zip(now.iter()).enumerate() {
            if a != b {
                since[i] = Instant::now();
                since_cpu[i] = thread_cpu_secs(pid, tids[i]).unwrap_or(0.0);
            } else if b.2 == 1 && since[i].elapsed() > stall {
                // the block has not moved for `stall` seconds of wall time: it only counts as stalled
                // if its own thread has burned that much CPU time since (a spinning thread does; a
                // thread that is not being scheduled on a busy machine does not)
                let burned = thread_cpu_secs(pid, tids[i]).map_or(0.0, |c| c - since_cpu[i]);
                if burned > stall.as_secs_f64() {
                    stalled.push((b.0, b.1));
                }
            }
        }
        last = now;
        if only.is_some() {
            // bisect mode (one thread): per-case watchdog in CPU seconds of the child
            let c = read_case(f);
            if c != last_case {
                last_case = c;
                case_since = Instant::now();
                case_cpu = cpu;
            } else if cpu - case_cpu > stall.as_secs_f64() {
                let _ = child.kill();
                let _ = child.wait();
                return End::Stalled(stalled);
            } else if case_since.elapsed() > stall * 40 {
                let _ = child.kill();
                let _ = child.wait();
                return End::Starved;
            }
        } else if !stalled.is_empty() {
            let _ = child.kill();
            let _ = child.wait();
            return End::Stalled(stalled);
        }
    }
}

pub fn supervise(prop: &str, tier: Tier) -> i32 {
    let Some((path, f)) = progress_file(prop) else {
        println!("MACHINERY-ERROR cannot create the progress file");
        return 2;
    };
    let stall = Duration::from_secs(std::env::var("VP_STALL").ok().and_then(|s| s.parse().ok()).unwrap_or(if tier == Tier::Quick { 60 } else { 300 }));
    let end = run_inner(prop, tier, None, &path, &f, stall, false);
    let (how, candidates): (String, Vec<(u64, u64)>) = match end {
        End::Exit(c) => {
            let _ = std::fs::remove_file(&path);
            return c;
        }
        End::Signal(sig) => (format!("abort (signal {sig})"), read_slots(&f).into_iter().filter(|s| s.2 == 1).map(|s| (s.0, s.1)).collect()),
        End::Stalled(st) => ("hang".to_string(), st),
        End::Starved => {
            println!("MACHINERY-ERROR the inner check was starved of CPU time");
            return 2;
        }
    };
    eprintln!("[{prop}] inner check ended abnormally: {how}; bisecting {} running block(s): {:?}", candidates.len(), candidates.iter().take(8).collect::<Vec<_>>());
    let mut found = vec![];
    let mut starved = false;
    for (s, b) in candidates.iter().take(64) {
        let Some((p2, f2)) = progress_file(&format!("{prop}-bisect")) else { continue };
        let per_case = Duration::from_secs(if tier == Tier::Quick { 30 } else { 120 });
        let end = run_inner(prop, tier, Some((*s, *b)), &p2, &f2, per_case, true);
        let culprit = read_case(&f2);
        let _ = std::fs::remove_file(&p2);
        match end {
            End::Exit(_) => {}
            End::Starved => starved = true,
            End::Signal(sig) => found.push((format!("abort (signal {sig})"), *s, *b, culprit)),
            // a hang is only a finding with the case that hangs in hand
            End::Stalled(_) if culprit.is_some() => found.push(("hang".to_string(), *s, *b, culprit)),
            End::Stalled(_) => starved = true,
        }
    }
    let _ = std::fs::remove_file(&path);
    if found.is_empty() {
        println!("MACHINERY-ERROR the inner check ended with {how} but no running block reproduced it in isolation{}", if starved { " (the machine was too busy to tell: re-run)" } else { "" });
        return 2;
    }
    let dir = verif_root().join("replays").join(prop);
    let _ = std::fs::create_dir_all(&dir);
    for (how2, s, b, culprit) in &found {
        let kind = if how2.starts_with("hang") { "hang" } else { "abort" };
        let case = match culprit {
            Some((idx, text)) => json!({"kind": "string", "text": text, "hex": text.bytes().map(|x| format!("{x:02x}")).collect::<String>(), "sweep": s, "block": b, "index": idx}),
            None => json!({"kind": "block", "sweep": s, "block": b}),
        };
        let key = format!("process-{kind} sweep={s}");
        let doc = json!({"property": prop, "finding_key": key, "expected": "the call returns (no abort, no hang)", "observed": how2, "case": case, "note": "found by the supervising parent: the inner check died or stalled; the block was re-run single-threaded in a fresh process and died/stalled again at this case"});
        let pth = dir.join(format!("{:016x}.json", h64(&(key.clone(), case.to_string()))));
        let _ = std::fs::write(&pth, serde_json::to_string_pretty(&doc).unwrap());
        println!("VIOLATION property={prop} replay={}", pth.display());
        eprintln!("  key={key} {how2} case={}", crate::report::short(&case.to_string(), 300));
    }
    // evidence: the inner run could not write it
    let ev = json!({
        "property_id": prop, "tier": tier.name(), "seed": crate::report::seed() as i64, "level": "exploration",
        "coverage": {"evaluations": 1, "distinct_nontrivial": 0, "rule": "the inner check process ended abnormally; see the VIOLATION lines", "samples": found.iter().map(|x| json!({"how": x.0, "sweep": x.1, "block": x.2})).collect::<Vec<_>>(), "exhaustive": false},
        "wall_s": 0.0, "violations": found.len(),
    });
    let _ = std::fs::create_dir_all(verif_root().join("evidence"));
    let _ = std::fs::write(verif_root().join("evidence").join(format!("{prop}.json")), serde_json::to_string_pretty(&ev).unwrap());
    1
}
