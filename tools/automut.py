#!/usr/bin/env python3
"""automut.py - a plain operator-mutation pass over saphyr's sources, used to measure what the quick
checks catch on *unselected* small slips (complements the sub-agent rounds of DESIGN §7).

  automut.py list [stride] [offset]          print the candidate mutants (file:line:operator) chosen
  automut.py run <lane-dir> <stride> <offset> run them in the scratch worktree <lane-dir>/repo with the
                                             harness copy <lane-dir>/harness; append to <lane-dir>/automut.tsv

A candidate survives when it compiles and the repository's own suite passes with it; survivors are run
against the quick checks (most relevant first, stopping at the first one that reports a VIOLATION).
Nothing is ever applied to /repo itself."""
import os, re, subprocess, sys, time

FILES = [
    "parser/src/scanner.rs", "parser/src/parser.rs", "parser/src/input.rs", "parser/src/input/str.rs",
    "parser/src/input/buffered.rs", "parser/src/char_traits.rs",
    "saphyr/src/loader.rs", "saphyr/src/scalar.rs", "saphyr/src/emitter.rs", "saphyr/src/encoding.rs",
    "saphyr/src/macros.rs", "saphyr/src/yaml.rs", "saphyr/src/yaml_owned.rs", "saphyr/src/char_traits.rs",
    "saphyr/src/annotated/marked_yaml.rs", "saphyr/src/annotated/marked_yaml_owned.rs",
    "saphyr/src/annotated/yaml_data.rs", "saphyr/src/annotated/yaml_data_owned.rs", "saphyr/src/annotated.rs",
]
OPS = [
    ("le->lt", r" <= ", " < "), ("lt->le", r" < ", " <= "), ("ge->gt", r" >= ", " > "), ("gt->ge", r" > ", " >= "),
    ("eq->ne", r" == ", " != "), ("ne->eq", r" != ", " == "), ("and->or", r" && ", " || "), ("or->and", r" \|\| ", " && "),
    ("plus1->minus1", r" \+ 1\b", " - 1"), ("minus1->plus1", r" - 1\b", " + 1"), ("pluseq1->pluseq2", r" \+= 1;", " += 2;"),
    ("true->false", r"\btrue\b", "false"), ("false->true", r"\bfalse\b", "true"),
    ("drop-not", r"\bif !", "if "), ("add-not", r"\bif (?!let\b|!)", "if !"),
    # a state update that is forgotten; a numeric constant that is off by one
    ("delete-stmt", r"^\s*self\.[\w.]+(\s*[-+]?=[^=]|\.(push|push_back|push_str|clear|pop|insert|truncate)\().*;\s*$", ""),
    ("const-plus1", r"\b(\d{2,5})\b", "+1"), ("const-minus1", r"\b(\d{2,5})\b", "-1"),
]
PARSER_ORDER = "C03 C04 C05 C06 C02 C10 C12 C14 C15 C16 C17 C13 C01 C07 C19 C09 C08 C20 C18 C11".split()
SAPHYR_ORDER = "C07 C08 C09 C19 C20 C18 C13 C12 C16 C15 C03 C01 C02 C04 C05 C06 C10 C14 C17 C11".split()


def candidates(repo):
    out = []
    for f in FILES:
        p = os.path.join(repo, f)
        if not os.path.exists(p):
            continue
        in_tests = False
        for i, line in enumerate(open(p).read().split("\n")):
            s = line.strip()
            if s.startswith("#[cfg(test)]") or s.startswith("mod test"):
                in_tests = True
            if in_tests or s.startswith("//") or s.startswith("#[") or "debug_assert" in s or "assert!" in s or s.startswith("///"):
                continue
            code = line.split("//")[0]
            for name, pat, rep in OPS:
                for m in re.finditer(pat, code):
                    out.append((f, i, name, m.start()))
    return out


def apply(repo, cand):
    f, i, name, col = cand
    p = os.path.join(repo, f)
    lines = open(p).read().split("\n")
    pat, rep = next((o[1], o[2]) for o in OPS if o[0] == name)
    line = lines[i]
    m = re.compile(pat).match(line, col) or re.compile(pat).search(line, col)
    if not m:
        return None
    if name == "delete-stmt":
        new = line[: len(line) - len(line.lstrip())] + "// (deleted) " + line.strip()
    elif name.startswith("const-"):
        new = line[: m.start()] + str(int(m.group(1)) + (1 if rep == "+1" else -1)) + line[m.end() :]
    else:
        new = line[: m.start()] + re.sub(pat, rep, line[m.start() : m.end()]) + line[m.end() :]
    lines[i] = new
    open(p, "w").write("\n".join(lines))
    return line.strip(), new.strip()


def sh(cmd, cwd, timeout):
    """Runs cmd in its own process group; on timeout the whole group is killed (a mutated parser that
    spins inside a test binary would otherwise outlive `cargo test` and burn a core for ever)."""
    import signal
    p = subprocess.Popen(cmd, cwd=cwd, shell=True, stdout=subprocess.PIPE, stderr=subprocess.STDOUT, text=True, start_new_session=True)
    try:
        out, _ = p.communicate(timeout=timeout)
        return p.returncode, out
    except subprocess.TimeoutExpired:
        try:
            os.killpg(p.pid, signal.SIGKILL)
        except ProcessLookupError:
            pass
        p.communicate()
        return 124, "timeout"


def main():
    if sys.argv[1] == "list":
        c = candidates("/repo")
        stride = int(sys.argv[2]) if len(sys.argv) > 2 else 1
        off = int(sys.argv[3]) if len(sys.argv) > 3 else 0
        ops = os.environ.get("AUTOMUT_OPS")
        files = os.environ.get("AUTOMUT_FILES")
        sel = [x for x in c if (not ops or re.search(ops, x[2])) and (not files or re.search(files, x[0]))][off::stride]
        print(len(c), "candidates,", len(sel), "selected")
        for x in sel[:20]:
            print(x)
        return
    if sys.argv[1] == "rerun":
        # automut.py rerun <lane-dir> <tsv>: re-runs the quick checks (all of them, most relevant first)
        # for every mutant of <tsv> that survived the suite and was not caught, appending to <lane-dir>/rerun.tsv
        lane, src = sys.argv[2], sys.argv[3]
        repo, harness = lane + "/repo", lane + "/harness"
        env = f"CARGO_NET_OFFLINE=true VERIF_ROOT={lane}/out VERIF_REPO={repo}"
        sh(f"{env} cargo build --release --offline -q", harness, 900)
        all_c = candidates(repo)
        for l in open(src):
            f = l.rstrip("\n").split("\t")
            if not (f[3].startswith("SURVIVED") or "machinery" in f[3]):
                continue
            name, col = f[2].split("@")
            cand = (f[0], int(f[1]) - 1, name, int(col))
            if cand not in all_c:
                continue
            sh("git checkout -q -- .", repo, 60)
            ch = apply(repo, cand)
            sh(f"{env} cargo build --release --offline -q", harness, 900)
            order = PARSER_ORDER if cand[0].startswith("parser") else SAPHYR_ORDER
            res, by = "SURVIVED-ALL", ""
            for c in order:
                rc, out = sh(f"{env} ./target/release/vp check {c} --tier quick 2>&1 | grep -E '^VIOLATION|MACHINERY' | head -3", harness, 1800)
                if "VIOLATION" in out:
                    res, by = "caught", by + c
                    break
                if "MACHINERY" in out:
                    by += f"[machinery-error:{c}]"
            with open(lane + "/rerun.tsv", "a") as fh:
                fh.write("\t".join([f[0], f[1], f[2], res, by, ch[0][:120], ch[1][:120]]) + "\n")
        sh("git checkout -q -- .", repo, 60)
        print("RERUN-DONE")
        return
    lane, stride, off = sys.argv[2], int(sys.argv[3]), int(sys.argv[4])
    repo, harness = lane + "/repo", lane + "/harness"
    env = f"CARGO_NET_OFFLINE=true VERIF_ROOT={lane}/out VERIF_REPO={repo}"
    ops = os.environ.get("AUTOMUT_OPS")  # optional regex on the operator name
    files = os.environ.get("AUTOMUT_FILES")  # optional regex on the file path
    sel = [c for c in candidates(repo) if (not ops or re.search(ops, c[2])) and (not files or re.search(files, c[0]))][off::stride]
    done = set()
    tsv = lane + "/automut.tsv"
    if os.path.exists(tsv):
        done = {tuple(l.split("\t")[:3]) for l in open(tsv)}
    for cand in sel:
        key = (cand[0], str(cand[1] + 1), cand[2] + "@" + str(cand[3]))
        if key in done:
            continue
        sh("git checkout -q -- .", repo, 60)
        ch = apply(repo, cand)
        if ch is None:
            continue
        t0 = time.time()
        rc, out = sh("CARGO_NET_OFFLINE=true cargo build -q --offline --workspace 2>&1 | tail -3", repo, 600)
        if "error" in out:
            res, by = "no-compile", ""
        else:
            # the compile step ran above without a limit; the test binaries get 6 GB of address space and 10 minutes
            rc, out = sh("CARGO_NET_OFFLINE=true cargo test --workspace --no-run --offline -q 2>&1 | tail -1; ulimit -v 6000000; CARGO_NET_OFFLINE=true cargo test --workspace --no-fail-fast --offline 2>&1 | grep -E '^test result|^error|memory allocation'", repo, 900)
            failed = sum(int(m) for m in re.findall(r"(\d+) failed", out))
            if rc == 124 or failed > 0 or "error" in out or "memory allocation" in out or "test result" not in out:
                res, by = "killed-by-suite", ""
            else:
                res, by = "SURVIVED-ALL", ""
                sh(f"{env} cargo build --release --offline -q", harness, 900)
                order = PARSER_ORDER if cand[0].startswith("parser") else SAPHYR_ORDER
                for c in order:
                    rc, out = sh(f"{env} ./target/release/vp check {c} --tier quick 2>&1 | grep -E '^VIOLATION|MACHINERY' | head -3", harness, 900)
                    if "VIOLATION" in out:
                        res, by = "caught", c
                        break
                    if "MACHINERY" in out:
                        by += f"[machinery-error:{c}]"  # not a verdict (e.g. a wall cap on an overloaded machine): go on
        with open(tsv, "a") as fh:
            fh.write("\t".join([key[0], key[1], key[2], res, by, f"{time.time()-t0:.0f}s", ch[0][:120], ch[1][:120]]) + "\n")
    sh("git checkout -q -- .", repo, 60)
    print("AUTOMUT-DONE")


if __name__ == "__main__":
    main()
