#!/bin/bash
# Verifies that the repository's own suite passes at EVERY "fix:" commit of /repo (in a scratch worktree).
set -u
WT=/tmp/confirm/wt
[ -d "$WT" ] || { mkdir -p /tmp/confirm && git -C /repo worktree add --detach "$WT" HEAD -q; }
for c in $(git -C /repo log --reverse --format=%h 8a6bed9..HEAD); do
  cd "$WT" && git checkout -q --detach $c && git clean -fdq -e target
  r=$(CARGO_NET_OFFLINE=true cargo test --workspace --no-fail-fast --offline 2>&1 | awk '/^test result/ {gsub(/\033\[[0-9;]*m/,""); p+=$4; f+=$6} /^error(\[|:)/ {e++} END {print "passed=" p " failed=" f " errors=" e+0}')
  echo "$c $(git -C /repo log -1 --format=%s $c | cut -c1-70) : $r"
done
