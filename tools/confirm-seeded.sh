#!/bin/bash
# usage: confirm-seeded.sh <patch.diff> <demo.rs>  -> confirms (in a scratch worktree of /repo) that
#  - the demo passes without the patch, fails with it,
#  - the repository's own suite passes with the patch.
# Prints CONFIRMED or the reason it is not. The scratch worktree /tmp/confirm/wt is reused; remove it
# with `git -C /repo worktree remove --force /tmp/confirm/wt` when done.
set -u
PATCH="$1"; DEMO="$2"
WT=/tmp/confirm/wt
if [ ! -d "$WT" ]; then mkdir -p /tmp/confirm && git -C /repo worktree add --detach "$WT" HEAD -q || exit 2; fi
cd "$WT" && git checkout -q --detach "$(git -C /repo rev-parse HEAD)" && git checkout -- . && git clean -fdq -e target
# where does the demo go?
REL=$(grep -o -m1 -E '(parser|saphyr)/tests/[A-Za-z0-9_]+\.rs' "$DEMO" | head -1)
[ -z "$REL" ] && { echo "NOT-CONFIRMED cannot find the demo's path in its header"; exit 1; }
CRATE=$(echo "$REL" | cut -d/ -f1); [ "$CRATE" = parser ] && PKG=saphyr-parser || PKG=saphyr
NAME=$(basename "$REL" .rs)
cp "$DEMO" "$WT/$REL"
export CARGO_NET_OFFLINE=true
run_demo() { timeout 300 cargo test -q --offline -p $PKG --test $NAME >/tmp/confirm/demo.log 2>&1; }
run_demo; R0=$?
git apply "$PATCH" || { echo "NOT-CONFIRMED patch does not apply"; exit 1; }
run_demo; R1=$?
rm -f "$WT/$REL"
SUITE=$(timeout 900 cargo test --workspace --no-fail-fast --offline 2>&1 | awk '/^test result/ {gsub(/\033\[[0-9;]*m/,""); p+=$4; f+=$6} /^error(\[|:)/ {e++} END {print "passed=" p " failed=" f " errors=" e+0}')
git checkout -- . && git clean -fdq -e target
echo "demo_without_patch_exit=$R0 demo_with_patch_exit=$R1 suite_with_patch: $SUITE"
if [ $R0 -eq 0 ] && [ $R1 -ne 0 ] && echo "$SUITE" | grep -q "failed=0 errors=0"; then echo CONFIRMED; else echo NOT-CONFIRMED; exit 1; fi
