#!/usr/bin/env python3
"""Rewrites the table in DESIGN.md §7 from seeded/*/meta.json (between the markers)."""
import json,glob,os,re
p='/verif/DESIGN.md'
s=open(p).read()
rows=[]
for d in sorted(glob.glob('/verif/seeded/*/meta.json')):
    m=json.load(open(d))
    name=os.path.basename(os.path.dirname(d))
    needs=m['needs_to_manifest']
    missed='MISSED' in needs or 'First caught' in needs
    rows.append((name,m['property'],needs.replace('|','\\|').replace('\n','⏎'),", ".join(m['caught_by_quick_checks']) or "none", "yes" if missed else ""))
head="| seeded change | targets | needs, in order to manifest | caught by (quick tier) | strengthened after a miss |\n|---|---|---|---|---|\n"
t=head+"".join("| "+" | ".join(r)+" |\n" for r in rows)
a=s.index(head)
b=s.index("\nA check is listed as working in the MANIFEST")
s=s[:a]+t+s[b:]
open(p,'w').write(s)
print(len(rows),"rows")
