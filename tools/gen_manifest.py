#!/usr/bin/env python3
"""Regenerates /verif/MANIFEST.json from the table below (keeps it schema-valid at all times)."""
import json, os, sys
ROOT = os.path.dirname(os.path.dirname(os.path.abspath(__file__)))
props = [json.loads(l) for l in open(os.path.join(ROOT, "properties.jsonl"))]
ids = [p["id"] for p in props]

SWEEP_NOTE = "Trusted base: the harness's Input implementation and event/position models; bounded to the stated alphabets, lengths N/K and the corpus. std's panic machinery (catch_unwind) for panic detection."
CHECKS = {
 "C01": dict(engine="E1 string-space sweep (+E4 isolation)", category="exploration", technique="bounded-exhaustive enumeration of input strings x back-end/API configurations against termination, panic-freedom and fixed linear work bounds",
   text="Exhaustive enumeration of every string up to length 6 (quick) / 8 (thorough) over nine YAML-indicator alphabets, every sequence of up to 3/4 boundary chunks, property / directive / escape soups, the yaml-test-suite corpus (+ one-edit neighbourhood) and size-scaled generators, each run through 6 input back-ends x 3 parser APIs and 4 loaders x 4 entry points on the real code; a universally quantified 'never panics/aborts/spins, linear work' claim can only be sampled by tests, here it is decided for the whole bounded space.",
   design_ref="DESIGN.md §4 C01", note=SWEEP_NOTE),
 "C02": dict(engine="E1 string-space sweep", category="exploration", technique="bounded-exhaustive enumeration of input strings checked by an independent push-down recogniser of the event grammar",
   text="Every string of the same bounded spaces is parsed (3 back-ends x pull/push) and the delivered events are run through an independent recogniser of the event sentence grammar with the anchor-id discipline; plus streams with 1 .. 2*10^5 anchors in four shapes (id counter width); exhaustive within the bounds.",
   design_ref="DESIGN.md §4 C02", note=SWEEP_NOTE),
 "C10": dict(engine="E1 string-space sweep", category="exploration", technique="bounded-exhaustive differential enumeration over ten Input back-ends",
   text="Every string of the bounded spaces is parsed with StrInput, BufferedInput and eight contract-conforming inputs (capacities 8/16/64/128 x two raw-read flavours); complete observations (events, spans, error text and marker) must be identical; a panic on one back-end alone is a difference; long generated inputs (3*10^5 characters) included. Exhaustive within the bounds.",
   design_ref="DESIGN.md §4 C10", note=SWEEP_NOTE),
 "C12": dict(engine="E1 string-space sweep", category="exploration", technique="bounded-exhaustive enumeration of inputs; every reported marker compared with an independent line/column model",
   text="Every marker in every event span and error of every string in the bounded spaces is compared with an independent position model, plus structural span rules, marked-node spans and the printed form of the error as ScanError, as load_from_str and as YamlDecoder::decode hand it out. Exhaustive within the bounds.",
   design_ref="DESIGN.md §4 C12", note=SWEEP_NOTE),
 "C14": dict(engine="E1 string-space sweep", category="exploration", technique="bounded-exhaustive metamorphic enumeration (LF vs CRLF vs CR) over all inputs of the string spaces",
   text="Every CR-free string with at least one LF in the bounded spaces is parsed under the two break substitutions and compared event by event (values, line/col, error). Exhaustive within the bounds.",
   design_ref="DESIGN.md §4 C14", note=SWEEP_NOTE),
}
extra = os.path.join(ROOT, "tools", "manifest_checks.json")
if os.path.exists(extra):
    CHECKS.update(json.load(open(extra)))

checks = []
for pid in ids:
    if pid not in CHECKS: continue
    c = CHECKS[pid]
    checks.append({
        "property_id": pid,
        "quick_cmd": f"bin/vp-check {pid} quick",
        "thorough_cmd": f"bin/vp-check {pid} thorough",
        "evidence_file": f"/verif/evidence/{pid}.json",
        "replay_cmd_template": "harness/target/release/vp replay {path}",
        "engine": c["engine"],
        "level_claimed": {"category": c["category"], "text": c["text"], "design_ref": c["design_ref"]},
        "level_note": c["note"],
        "technique": c["technique"],
    })
na = [{"property_id": pid, "reason": "check not built yet in this round (planned, see DESIGN.md §4)"} for pid in ids if pid not in CHECKS]
manifest = {
  "version": 1,
  "setup_cmd": "cd /verif/harness && CARGO_NET_OFFLINE=true cargo build --release --offline",
  "hooks": {
    "guard": "saphyr_rs_saphyr_verif",
    "enable": "no hooks are needed: every check drives the public API of /repo/saphyr and /repo/parser, which the harness crate depends on by path and rebuilds on every run",
    "baseline_off_cmd": "cd /repo && cargo test --workspace --no-fail-fast --offline",
    "source_commits": [],
    "add_only": True,
  },
  "engines": [
    {"name": "vp", "path": "harness", "serves_properties": [c["property_id"] for c in checks], "kind_free_text": "one Rust crate: E1 exhaustive string-space enumerator, E2 deviation-bounded choice-sequence explorer over reference models, E3 operation-history explorer (stateright), E4 process-isolated scenario grid; all run the real saphyr code by path dependency"},
  ],
  "checks": checks,
  "notes": "Every check: exit 0 = held on everything explored, 1 = VIOLATION line(s) with replay file, 2 = MACHINERY-ERROR. Known findings: findings/known_findings.json. VERIF_TIER is the default tier when no tier argument is given; VERIF_SEED only seeds labelled pseudo-random extension scopes.",
  "not_applicable": na,
}
json.dump(manifest, open(os.path.join(ROOT, "MANIFEST.json"), "w"), indent=1)
print(f"{len(checks)} checks, {len(na)} not_applicable")
