#!/usr/bin/env python3
"""keep-seeded.py <ID> <variant> <caught_by comma list or 'none'> <needs text> [origin]
Copies /tmp/mut/<ID>/out/<variant>.diff + demo_<variant>.rs (+ the agent's notes) into /verif/seeded/<ID>-<variant>/ with meta.json."""
import sys, os, shutil, json, subprocess
ID, v, caught, needs = sys.argv[1:5]
origin = sys.argv[5] if len(sys.argv) > 5 else "independent sub-agent given only the property text and a scratch worktree"
src = os.environ.get("MUTDIR", "/tmp/mut") + f"/{ID}/out"
dv = os.environ.get("DESTV", v)
dst = f"/verif/seeded/{ID}-{dv}"
os.makedirs(dst, exist_ok=True)
shutil.copy(f"{src}/{v}.diff", f"{dst}/patch.diff")
demo = f"{src}/demo_{v}.rs"
if os.path.exists(demo): shutil.copy(demo, f"{dst}/demo.rs")
if os.path.exists(f"{src}/notes.md"): shutil.copy(f"{src}/notes.md", f"{dst}/agent-notes.md")
head = subprocess.check_output(["git","-C","/repo","rev-parse","--short","HEAD"]).decode().strip()
meta = {
  "property": ID, "variant": dv, "origin": origin,
  "needs_to_manifest": needs,
  "applies_to_repo_commit": head,
  "confirmed": "tools/confirm-seeded.sh patch.diff demo.rs in a scratch worktree: demo passes without the patch, fails with it; repository suite (604 tests incl. yaml-test-suite) passes with the patch",
  "ran": "tools/try-seeded.sh patch.diff (applies to /repo, runs quick checks, reverts)",
  "caught_by_quick_checks": [] if caught == "none" else caught.split(","),
}
json.dump(meta, open(f"{dst}/meta.json","w"), indent=1)
print("kept", dst)
