#!/bin/bash
# usage: lane-seeded.sh <lane-id> <ID:variant> ...  - confirms sub-agent mutants (MUT=<dir>/<ID>/out/<v>.diff + demo_<v>.rs) in a scratch worktree
# /tmp/lane<id>/repo and runs the quick checks of a harness copy against it (own check first; all others if it misses). Never touches /repo.
L=$1; shift
D=/tmp/lane$L
mkdir -p $D/out/findings
if [ ! -d $D/repo ]; then git -C /repo worktree add --detach $D/repo HEAD -q; fi
( cd $D/repo && git checkout -q --detach "$(git -C /repo rev-parse HEAD)" && git checkout -q -- . && git clean -fdq -e target )
rsync -a --exclude target ${HSRC:-/verif/harness}/ $D/harness/
sed -i "s#/repo/saphyr#$D/repo/saphyr#; s#/repo/parser#$D/repo/parser#" $D/harness/Cargo.toml
cp /verif/findings/known_findings.json $D/out/findings/
export CARGO_NET_OFFLINE=true VERIF_ROOT=$D/out VERIF_REPO=$D/repo
ALL="C01 C02 C03 C04 C05 C06 C07 C08 C09 C10 C11 C12 C13 C14 C15 C16 C17 C18 C19 C20"
runcheck() { # $1 = check id ; echoes VIOLATION summary, returns 0 if caught
  local out rc nv
  out=$(cd $D/harness && ./target/release/vp check $1 --tier quick 2>&1); rc=$?
  nv=$(echo "$out" | grep -c '^VIOLATION')
  if [ $rc -eq 1 ] && [ $nv -gt 0 ]; then echo "  $1: VIOLATION x$nv  $(echo "$out" | grep -m1 'key=' | cut -c1-150)"; return 0; fi
  if [ $rc -ne 0 ]; then echo "  $1: rc=$rc $(echo "$out" | grep -m1 MACHINERY | cut -c1-160)"; fi
  return 1
}
for m in "$@"; do id=${m%%:*}; v=${m##*:}
  echo "=== $id $v"
  P=${MUT:-/tmp/mut6}/$id/out/$v.diff; DEMO=${MUT:-/tmp/mut6}/$id/out/demo_$v.rs
  [ -f "$P" ] && [ -f "$DEMO" ] || { echo "missing files"; continue; }
  cd $D/repo && git checkout -q -- . && git clean -fdq -e target
  REL=$(grep -o -m1 -E '(parser|saphyr)/tests/[A-Za-z0-9_]+\.rs' "$DEMO" | head -1)
  [ -z "$REL" ] && { echo "NOT-CONFIRMED no demo path"; continue; }
  CR=$(echo "$REL" | cut -d/ -f1); [ "$CR" = parser ] && PKG=saphyr-parser || PKG=saphyr
  NAME=$(basename "$REL" .rs); cp "$DEMO" "$D/repo/$REL"
  ( ulimit -v 8000000; timeout -k 5 600 cargo test -q --offline -p $PKG --test $NAME >/dev/null 2>&1 ); R0=$?
  git apply "$P" || { echo "NOT-CONFIRMED patch does not apply"; rm -f "$D/repo/$REL"; continue; }
  ( ulimit -v 8000000; timeout -k 5 600 cargo test -q --offline -p $PKG --test $NAME >/dev/null 2>&1 ); R1=$?
  rm -f "$D/repo/$REL"
  SUITE=$(ulimit -v 8000000; timeout -k 5 900 cargo test --workspace --no-fail-fast --offline 2>&1 | awk '/^test result/ {gsub(/\033\[[0-9;]*m/,""); p+=$4; f+=$6} /^error(\[|:)/ {e++} END {print "passed=" p " failed=" f " errors=" e+0}')
  for p in $(pgrep -f "$D/repo/target/debug/deps/"); do kill -9 $p 2>/dev/null; done
  echo "demo_without=$R0 demo_with=$R1 suite: $SUITE"
  if [ $R0 -eq 0 ] && [ $R1 -ne 0 ] && echo "$SUITE" | grep -q "failed=0 errors=0"; then echo CONFIRMED; else echo NOT-CONFIRMED; git checkout -q -- .; continue; fi
  cd $D/harness && cargo build --release --offline -q 2>/dev/null
  CAUGHT=""
  if runcheck $id; then CAUGHT=" $id"; echo "OWN-CHECK-CAUGHT"; else
    for c in $ALL; do [ $c = $id ] && continue; if runcheck $c; then CAUGHT="$CAUGHT $c"; fi; done
  fi
  cd $D/repo && git checkout -q -- .
  echo "CAUGHT-BY:${CAUGHT:- none}"
done
echo LANE-DONE
