#!/bin/sh
# Runs the repository's own suite (guard off; there are no hooks) and prints totals.
cd "${1:-/repo}" && cargo test --workspace --no-fail-fast --offline 2>&1 | awk '/^test result/ {gsub(/\033\[[0-9;]*m/,""); p+=$4; f+=$6} /^error/ {print} END {print "passed=" p " failed=" f}'
