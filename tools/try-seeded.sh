#!/bin/bash
# usage: try-seeded.sh <patch.diff> [check ids...]  -> applies the patch to /repo, runs the quick checks
# (all 20 by default), prints which ones report a VIOLATION, and reverts /repo.
set -u
PATCH="$1"; shift
IDS="${@:-C01 C02 C03 C04 C05 C06 C07 C08 C09 C10 C11 C12 C13 C14 C15 C16 C17 C18 C19 C20}"
cd /repo && git diff --quiet || { echo "/repo is dirty"; exit 2; }
git -C /repo apply "$PATCH" || { echo "patch does not apply to /repo"; exit 2; }
CAUGHT=""
for id in $IDS; do
  out=$(cd /verif && VERIF_TIER=${TIER:-quick} bin/vp-check $id ${TIER:-quick} 2>&1); rc=$?
  v=$(echo "$out" | grep -c '^VIOLATION')
  if [ $rc -eq 1 ] && [ $v -gt 0 ]; then CAUGHT="$CAUGHT $id"; echo "  $id: VIOLATION x$v  $(echo "$out" | grep -m1 'key=' | cut -c1-160)"; 
  elif [ $rc -ne 0 ]; then echo "  $id: rc=$rc $(echo "$out" | grep -m1 MACHINERY | cut -c1-200)"; fi
done
git -C /repo checkout -- .
echo "CAUGHT-BY:${CAUGHT:- none}"
